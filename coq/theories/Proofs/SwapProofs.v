(* Proofs about Model/Swap.v *)
From Fnd Require Import Base.Prelude Base.Sum Model.Balance Model.CCTransfer Model.Swap
  Proofs.BalanceProofs Proofs.CCTransferProofs.
Local Open Scope Z_scope.

(* ---- one ledger: a swap's escrow is released once ---------------------------------------- *)
Theorem done_removes c id key c' ev : s_apply c (SUserDone id key) = Ok (c', ev) ->
  sc_swaps c' !! id = None /\ exists r, sc_swaps c !! id = Some r /\ sw_hash r = key /\ sw_creator r <> sw_owner r /\
  ev = Some (sw_from r, id, key).
Proof.
  cbn [s_apply]. destruct (sc_swaps c !! id) as [r|] eqn:E; [|discriminate].
  destruct (N.eqb_spec (sw_hash r) key) as [Hk|]; cbn [negb]; [|discriminate].
  destruct (N.eqb_spec (sw_creator r) (sw_owner r)); [discriminate|].
  destruct (if N.eqb _ _ then _ else _) as [b|]; cbn [rbind]; [|discriminate].
  intros [= <- <-]. cbn. split; [apply lookup_delete|]. exists r. auto.
Qed.

Theorem cancel_removes c id c' ev : s_apply c (SCancel id) = Ok (c', ev) -> sc_swaps c' !! id = None /\ ev = None.
Proof.
  cbn [s_apply]. destruct (sc_swaps c !! id) as [r|]; [|discriminate].
  destruct (if _ && _ then _ else _) as [b|]; cbn [rbind]; [|discriminate].
  intros [= <- <-]. cbn. split; [apply lookup_delete|reflexivity].
Qed.

Theorem robot_done_removes c id key c' ev : s_apply c (SRobotDone id key) = Ok (c', ev) -> sc_swaps c' !! id = None.
Proof.
  cbn [s_apply]. destruct (sc_swaps c !! id) as [r|]; [|discriminate]. destruct (negb _); [discriminate|].
  destruct (if N.eqb _ _ then _ else _) as [b|]; cbn [rbind]; [|discriminate]. intros [= <- <-]. cbn. apply lookup_delete.
Qed.

(* a swap that was completed or cancelled no longer exists: nothing can be released again *)
Theorem gone_means_rejected c id : sc_swaps c !! id = None ->
  (forall key, s_apply c (SUserDone id key) = Err ENotFound) /\ (forall key, s_apply c (SRobotDone id key) = Err ENotFound) /\
  s_apply c (SCancel id) = Err ENotFound.
Proof. intros H. cbn [s_apply]. rewrite H. auto. Qed.

Theorem wrong_key_rejected c id r key : sc_swaps c !! id = Some r -> sw_hash r <> key ->
  s_apply c (SUserDone id key) = Err EBadKey /\ s_apply c (SRobotDone id key) = Err EBadKey.
Proof.
  intros H Hk. cbn [s_apply]. rewrite H. destruct (N.eqb_spec (sw_hash r) key); [contradiction|]. auto.
Qed.

(* completion is possible only on the robot's answered copy, never on the owner's own record *)
Theorem own_record_not_completable c id r key : sc_swaps c !! id = Some r -> sw_creator r = sw_owner r ->
  forall c' ev, s_apply c (SUserDone id key) <> Ok (c', ev).
Proof.
  intros H Hc c' ev. cbn [s_apply]. rewrite H. destruct (negb _); [discriminate|]. rewrite Hc, N.eqb_refl. discriminate.
Qed.

(* an open swap is never replaced *)
Theorem begin_no_overwrite c s id sym grp to amt h r : sc_swaps c !! id = Some r ->
  forall c' ev, s_apply c (SBegin s id sym grp to amt h) <> Ok (c', ev).
Proof.
  intros H c' ev. cbn [s_apply]. destruct (amt <? 0); [discriminate|]. destruct (1000 <=? sym)%N; [discriminate|].
  destruct (if N.eqb sym _ then _ else _) as [b|]; cbn [rbind]; [|discriminate]. rewrite H. discriminate.
Qed.

Theorem answer_no_overwrite c id r r0 : sc_swaps c !! id = Some r0 ->
  forall c' ev, s_apply c (SAnswer id r) <> Ok (c', ev).
Proof. intros H c' ev. cbn [s_apply]. rewrite H. discriminate. Qed.

Theorem rejected_unchanged c o e : snd (fst (s_step c o)) = Some e -> fst (fst (s_step c o)) = c.
Proof. unfold s_step. destruct (s_apply c o) as [[c' ev]|]; [discriminate|reflexivity]. Qed.

(* ---- every operation changes at most one balance entry and one record --------------------- *)
Inductive bchg := BNone | BAdd (k : N * N * N) (a : Z) | BSub (k : N * N * N) (a : Z).
Definition bchg_ok (b : bals) (ch : bchg) (b' : bals) : Prop :=
  match ch with BNone => b' = b | BAdd k a => badd b k a = Ok b' | BSub k a => bsub b k a = Ok b' end.
Definition chgP (P : N * N * N -> bool) (ch : bchg) : Z :=
  match ch with BNone => 0 | BAdd k a => if P k then a else 0 | BSub k a => - (if P k then a else 0) end.
Definition chg_at (k' : N * N * N) (ch : bchg) : Z :=
  match ch with BNone => 0 | BAdd k a => at_key k k' a | BSub k a => - at_key k k' a end.

Lemma bchg_sum b ch b' P : bchg_ok b ch b' -> bsum P b' = bsum P b + chgP P ch.
Proof.
  destruct ch as [|k a|k a]; cbn.
  - intros ->. lia.
  - intros H. apply (bsum_badd P _ _ _ _ H).
  - intros H. rewrite (bsum_bsub P _ _ _ _ H). lia.
Qed.
Lemma bchg_get b ch b' k' : bchg_ok b ch b' -> bget b' k' = bget b k' + chg_at k' ch.
Proof.
  destruct ch as [|k a|k a]; cbn.
  - intros ->. lia.
  - intros H. apply (bget_badd _ _ _ _ _ H).
  - intros H. rewrite (bget_bsub _ _ _ _ _ H). lia.
Qed.

Definition copy_of (r : swaprec) : swaprec :=
  SW 0 (sw_owner r) (sw_sym r) (sw_grp r) (sw_amt r) (sw_from r) (sw_to r) (sw_hash r).
Definition own (r : swaprec) : bool := N.eqb (sw_creator r) (sw_owner r).
Definition direct (r : swaprec) : bool := N.eqb (sw_sym r) (sw_from r).
Definition reverse (r : swaprec) : bool := N.eqb (sw_sym r) (sw_to r).

Definition begin_key (me s sym grp : N) : N * N * N :=
  if N.eqb sym me then (KTok, s, grp) else (KAllowed, s, tk_enc sym grp).
Definition cancel_chg (r : swaprec) : bchg :=
  if own r && direct r then BAdd (KTok, sw_owner r, sw_grp r) (sw_amt r)
  else if own r && reverse r then BAdd (KAllowed, sw_owner r, tk_enc (sw_sym r) (sw_grp r)) (sw_amt r)
  else if N.eqb (sw_creator r) 0 && reverse r then BAdd (KGiven, sw_from r, 0%N) (sw_amt r)
  else BNone.
Definition answer_chg (r : swaprec) : bchg := if direct r then BNone else BSub (KGiven, sw_from r, 0%N) (sw_amt r).
Definition userdone_chg (r : swaprec) : bchg :=
  if direct r then BAdd (KAllowed, sw_owner r, tk_enc (sw_sym r) (sw_grp r)) (sw_amt r) else BAdd (KTok, sw_owner r, 0%N) (sw_amt r).
Definition robotdone_chg (r : swaprec) : bchg := if direct r then BAdd (KGiven, sw_to r, 0%N) (sw_amt r) else BNone.

Lemma begin_effect c s id sym grp to amt h c' ev : s_apply c (SBegin s id sym grp to amt h) = Ok (c', ev) ->
  sc_swaps c !! id = None /\ sc_swaps c' = <[id := SW s s sym grp amt (sc_me c) to h]> (sc_swaps c) /\ sc_me c' = sc_me c /\
  (sym < 1000)%N /\ 0 <= amt /\ (sym = sc_me c \/ sym = to /\ to <> sc_me c) /\
  bchg_ok (sc_bal c) (BSub (begin_key (sc_me c) s sym grp) amt) (sc_bal c').
Proof.
  cbn [s_apply]. destruct (Z.ltb_spec amt 0) as [|Ha]; [discriminate|]. destruct (N.leb_spec 1000 sym) as [|Hs]; [discriminate|].
  unfold begin_key. destruct (N.eqb_spec sym (sc_me c)) as [Em|Em].
  - destruct (bsub _ _ _) as [b|] eqn:Eb; cbn [rbind]; [|discriminate].
    destruct (sc_swaps c !! id) eqn:El; [discriminate|]. intros [= <- <-]. cbn. repeat split; auto.
  - destruct (N.eqb_spec sym to) as [Et|Et]; [|discriminate].
    destruct (bsub _ _ _) as [b|] eqn:Eb; cbn [rbind]; [|discriminate].
    destruct (sc_swaps c !! id) eqn:El; [discriminate|]. intros [= <- <-]. cbn. repeat split; auto.
    right. split; congruence.
Qed.

Lemma answer_effect c id r c' ev : s_apply c (SAnswer id r) = Ok (c', ev) ->
  sc_swaps c !! id = None /\
  sc_swaps c' = <[id := copy_of r]> (sc_swaps c) /\ sc_me c' = sc_me c /\ (direct r = true \/ reverse r = true) /\
  bchg_ok (sc_bal c) (answer_chg r) (sc_bal c').
Proof.
  cbn [s_apply]. unfold answer_chg, direct, reverse. destruct (sc_swaps c !! id) eqn:El; [discriminate|].
  destruct (N.eqb (sw_sym r) (sw_from r)) eqn:Ef; cbn [rbind].
  - intros [= <- <-]. cbn. repeat split; auto.
  - destruct (N.eqb (sw_sym r) (sw_to r)); [|discriminate].
    destruct (bsub _ _ _) as [b|] eqn:Eb; cbn [rbind]; [|discriminate]. intros [= <- <-]. cbn. repeat split; auto.
Qed.

Lemma userdone_effect c id key c' ev : s_apply c (SUserDone id key) = Ok (c', ev) ->
  exists r, sc_swaps c !! id = Some r /\ sw_creator r <> sw_owner r /\ sw_hash r = key /\
  sc_swaps c' = delete id (sc_swaps c) /\ sc_me c' = sc_me c /\ bchg_ok (sc_bal c) (userdone_chg r) (sc_bal c').
Proof.
  cbn [s_apply]. destruct (sc_swaps c !! id) as [r|] eqn:E; [|discriminate]. intros H. exists r. revert H.
  destruct (N.eqb_spec (sw_hash r) key) as [Hk|]; cbn [negb]; [|discriminate].
  destruct (N.eqb_spec (sw_creator r) (sw_owner r)) as [|Hco]; [discriminate|]. unfold userdone_chg, direct.
  destruct (N.eqb (sw_sym r) (sw_from r)) eqn:Ef;
    (destruct (badd _ _ _) as [b|] eqn:Eb; cbn [rbind]; [|discriminate]); intros [= <- <-]; cbn; repeat split; auto.
Qed.

Lemma robotdone_effect c id key c' ev : s_apply c (SRobotDone id key) = Ok (c', ev) ->
  exists r, sc_swaps c !! id = Some r /\ sw_hash r = key /\
  sc_swaps c' = delete id (sc_swaps c) /\ sc_me c' = sc_me c /\ bchg_ok (sc_bal c) (robotdone_chg r) (sc_bal c').
Proof.
  cbn [s_apply]. destruct (sc_swaps c !! id) as [r|] eqn:E; [|discriminate]. intros H. exists r. revert H.
  destruct (N.eqb_spec (sw_hash r) key) as [Hk|]; cbn [negb]; [|discriminate]. unfold robotdone_chg, direct.
  destruct (N.eqb (sw_sym r) (sw_from r)) eqn:Ef.
  - destruct (badd _ _ _) as [b|] eqn:Eb; cbn [rbind]; [|discriminate]. intros [= <- <-]; cbn; repeat split; auto.
  - cbn [rbind]. intros [= <- <-]; cbn; repeat split; auto.
Qed.

Lemma cancel_effect c id c' ev : s_apply c (SCancel id) = Ok (c', ev) ->
  exists r, sc_swaps c !! id = Some r /\ sc_swaps c' = delete id (sc_swaps c) /\ sc_me c' = sc_me c /\
  bchg_ok (sc_bal c) (cancel_chg r) (sc_bal c').
Proof.
  cbn [s_apply]. destruct (sc_swaps c !! id) as [r|] eqn:E; [|discriminate]. intros H. exists r. revert H.
  unfold cancel_chg, own, direct, reverse.
  destruct (N.eqb (sw_creator r) (sw_owner r) && N.eqb (sw_sym r) (sw_from r)).
  { destruct (badd _ _ _) as [b|] eqn:Eb; cbn [rbind]; [|discriminate]. intros [= <- <-]; cbn; repeat split; auto. }
  destruct (N.eqb (sw_creator r) (sw_owner r) && N.eqb (sw_sym r) (sw_to r)).
  { destruct (badd _ _ _) as [b|] eqn:Eb; cbn [rbind]; [|discriminate]. intros [= <- <-]; cbn; repeat split; auto. }
  destruct (N.eqb (sw_creator r) 0 && N.eqb (sw_sym r) (sw_to r)).
  { destruct (badd _ _ _) as [b|] eqn:Eb; cbn [rbind]; [|discriminate]. intros [= <- <-]; cbn; repeat split; auto. }
  cbn [rbind]. intros [= <- <-]; cbn; repeat split; auto.
Qed.

(* ---- two channels and the robot ------------------------------------------------------------ *)
Definition chan (s : ssys) (x : bool) : schan := if x then ssA s else ssB s.
Definition set_chan (s : ssys) (x : bool) (c : schan) (st : gmap (bool * N) status) : ssys :=
  if x then SSys c (ssB s) st else SSys (ssA s) c st.
Lemma sorigin_chan s d : sorigin s d = chan s d. Proof. reflexivity. Qed.
Lemma sdest_chan s d : sdest s d = chan s (negb d). Proof. destruct d; reflexivity. Qed.
Lemma set_origin_chan s d c st : set_origin s d c st = set_chan s d c st. Proof. reflexivity. Qed.
Lemma set_dest_chan s d c st : set_dest s d c st = set_chan s (negb d) c st. Proof. destruct d; reflexivity. Qed.
Lemma chan_set s x c st y : chan (set_chan s x c st) y = if Bool.eqb x y then c else chan s y.
Proof. destruct x, y; reflexivity. Qed.
Lemma sst_set s x c st : sst (set_chan s x c st) = st. Proof. destruct x; reflexivity. Qed.
Lemma set_chan_id s x : set_chan s x (chan s x) (sst s) = s. Proof. destruct s, x; reflexivity. Qed.

Inductive sstep (s : ssys) : ssys -> Prop :=
| st_stutter : sstep s s
| st_begin d sender id sym grp to amt h c' ev : sender <> 0%N ->
    s_apply (chan s d) (SBegin sender id sym grp to amt h) = Ok (c', ev) -> sstep s (set_chan s d c' (sst s))
| st_answer d id r c' ev : stat s d id = StNone -> sc_swaps (chan s d) !! id = Some r ->
    sc_swaps (chan s (negb d)) !! id = None -> sw_creator r <> 0%N -> sw_to r = sc_me (chan s (negb d)) ->
    s_apply (chan s (negb d)) (SAnswer id r) = Ok (c', ev) ->
    sstep s (set_chan s (negb d) c' (<[(d, id) := StAnswered]> (sst s)))
| st_udone d id key c' ev : stat s d id = StAnswered ->
    s_apply (chan s (negb d)) (SUserDone id key) = Ok (c', ev) ->
    sstep s (set_chan s (negb d) c' (<[(d, id) := StDestDone]> (sst s)))
| st_rdone d id r c' ev : stat s d id = StDestDone -> sc_swaps (chan s d) !! id = Some r ->
    s_apply (chan s d) (SRobotDone id (sw_hash r)) = Ok (c', ev) -> sstep s (set_chan s d c' (delete (d, id) (sst s)))
| st_cdest d id c' ev : stat s d id = StAnswered ->
    s_apply (chan s (negb d)) (SCancel id) = Ok (c', ev) ->
    sstep s (set_chan s (negb d) c' (<[(d, id) := StDestCancelled]> (sst s)))
| st_corig d id r c' ev : (stat s d id = StNone \/ stat s d id = StDestCancelled) -> sc_swaps (chan s d) !! id = Some r ->
    sw_creator r <> 0%N -> s_apply (chan s d) (SCancel id) = Ok (c', ev) -> sstep s (set_chan s d c' (delete (d, id) (sst s))).

Lemma step1_cases c o : (exists c' ev, s_apply c o = Ok (c', ev) /\ step1 c o = (c', true)) \/ step1 c o = (c, false).
Proof. unfold step1. destruct (s_apply c o) as [[c' ev]|]; [left; eauto|right; reflexivity]. Qed.

Lemma ssys_step_sstep s a : sstep s (ssys_step s a).
Proof.
  destruct a as [d sender id sym grp to amt h|d id|d id key|d id|d id|d id]; cbn [ssys_step];
    rewrite ?sorigin_chan, ?sdest_chan.
  - destruct (N.eqb_spec sender 0); [constructor|].
    destruct (step1_cases (chan s d) (SBegin sender id sym grp to amt h)) as [(c' & ev & Ha & ->)| ->].
    + rewrite set_origin_chan. eapply st_begin; eauto.
    + rewrite set_origin_chan, set_chan_id. constructor.
  - destruct (stat s d id) eqn:Es; try constructor.
    destruct (sc_swaps (chan s d) !! id) as [r|] eqn:Eo; [|constructor].
    destruct (sc_swaps (chan s (negb d)) !! id) eqn:Ed; [constructor|].
    destruct (N.eqb_spec (sw_creator r) 0); cbn [negb andb]; [constructor|].
    destruct (N.eqb_spec (sw_to r) (sc_me (chan s (negb d)))); [|constructor].
    destruct (step1_cases (chan s (negb d)) (SAnswer id r)) as [(c' & ev & Ha & ->)| ->]; rewrite set_dest_chan.
    + eapply st_answer; eauto.
    + rewrite set_chan_id. constructor.
  - destruct (stat s d id) eqn:Es; try constructor.
    destruct (step1_cases (chan s (negb d)) (SUserDone id key)) as [(c' & ev & Ha & ->)| ->]; rewrite set_dest_chan.
    + eapply st_udone; eauto.
    + rewrite set_chan_id. constructor.
  - destruct (stat s d id) eqn:Es; try constructor.
    destruct (sc_swaps (chan s d) !! id) as [r|] eqn:Eo; [|constructor].
    destruct (step1_cases (chan s d) (SRobotDone id (sw_hash r))) as [(c' & ev & Ha & ->)| ->]; rewrite set_origin_chan.
    + eapply st_rdone; eauto.
    + rewrite set_chan_id. constructor.
  - destruct (stat s d id) eqn:Es; try constructor.
    destruct (step1_cases (chan s (negb d)) (SCancel id)) as [(c' & ev & Ha & ->)| ->]; rewrite set_dest_chan.
    + eapply st_cdest; eauto.
    + rewrite set_chan_id. constructor.
  - destruct (stat s d id) eqn:Es; try constructor;
    (destruct (sc_swaps (chan s d) !! id) as [r|] eqn:Eo; [|constructor]);
    (destruct (N.eqb_spec (sw_creator r) 0); [constructor|]);
    (destruct (step1_cases (chan s d) (SCancel id)) as [(c' & ev & Ha & ->)| ->]; rewrite set_origin_chan;
      [eapply st_corig; eauto | rewrite set_chan_id; constructor]).
Qed.

Lemma stat_set_same s x c d id : stat (set_chan s x c (sst s)) d id = stat s d id.
Proof. unfold stat. rewrite sst_set. reflexivity. Qed.
Lemma stat_set_insert_eq s x c d id v : stat (set_chan s x c (<[(d, id) := v]> (sst s))) d id = v.
Proof. unfold stat. rewrite sst_set, lookup_insert. reflexivity. Qed.
Lemma stat_set_insert_ne s x c d id v d' id' : (d', id') <> (d, id) ->
  stat (set_chan s x c (<[(d, id) := v]> (sst s))) d' id' = stat s d' id'.
Proof. intros H. unfold stat. rewrite sst_set, lookup_insert_ne by congruence. reflexivity. Qed.
Lemma stat_set_delete_eq s x c d id : stat (set_chan s x c (delete (d, id) (sst s))) d id = StNone.
Proof. unfold stat. rewrite sst_set, lookup_delete. reflexivity. Qed.
Lemma stat_set_delete_ne s x c d id d' id' : (d', id') <> (d, id) ->
  stat (set_chan s x c (delete (d, id) (sst s))) d' id' = stat s d' id'.
Proof. intros H. unfold stat. rewrite sst_set, lookup_delete_ne by congruence. reflexivity. Qed.

Definition wfrec (me : N) (r : swaprec) : Prop :=
  (sw_sym r < 1000)%N /\ 0 <= sw_amt r /\ sw_owner r <> 0%N /\
  (if N.eqb (sw_creator r) 0 then sw_to r = me /\ sw_from r <> me /\ (direct r = true \/ reverse r = true)
   else sw_creator r = sw_owner r /\ sw_from r = me /\ (sw_sym r = me \/ (sw_sym r = sw_to r /\ sw_to r <> me))).
Definition wfchan (c : schan) : Prop := forall id r, sc_swaps c !! id = Some r -> wfrec (sc_me c) r.

Definition link (s : ssys) : Prop := forall d id, stat s d id <> StNone ->
  exists r, sc_swaps (chan s d) !! id = Some r /\ sw_creator r <> 0%N /\ sw_to r = sc_me (chan s (negb d)) /\
            (stat s d id = StAnswered -> sc_swaps (chan s (negb d)) !! id = Some (copy_of r)).

Record SInv (s : ssys) : Prop := {
  si_ne : sc_me (chan s true) <> sc_me (chan s false);
  si_wf : forall x, wfchan (chan s x);
  si_link : link s }.

Definition local_change (s s' : ssys) (d0 : bool) (id0 : N) : Prop :=
  (forall y, sc_me (chan s' y) = sc_me (chan s y)) /\
  (forall y id, id <> id0 -> sc_swaps (chan s' y) !! id = sc_swaps (chan s y) !! id) /\
  (forall d id, (d, id) <> (d0, id0) -> stat s' d id = stat s d id).

Lemma link_frame s s' d0 id0 : local_change s s' d0 id0 -> link s ->
  (forall d, stat s' d id0 <> StNone ->
     exists r, sc_swaps (chan s' d) !! id0 = Some r /\ sw_creator r <> 0%N /\ sw_to r = sc_me (chan s' (negb d)) /\
            (stat s' d id0 = StAnswered -> sc_swaps (chan s' (negb d)) !! id0 = Some (copy_of r))) -> link s'.
Proof.
  intros (Hme & Hsw & Hst) Hl Hloc d id. destruct (decide (id = id0)) as [->|Hne]; [apply Hloc|].
  rewrite Hst by congruence. rewrite !Hsw by exact Hne. rewrite Hme. apply Hl.
Qed.

Lemma me_ne s x : SInv s -> sc_me (chan s x) <> sc_me (chan s (negb x)).
Proof. intros [H _ _]. destruct x; cbn [negb]; congruence. Qed.

Lemma wf_copy me me' r : wfrec me r -> sw_creator r <> 0%N -> sw_to r = me' -> me <> me' ->
  (direct r = true \/ reverse r = true) -> wfrec me' (copy_of r).
Proof.
  unfold wfrec. intros (Hs & Ha & Ho & Hr) Hc Ht Hne Hdr. destruct (N.eqb_spec (sw_creator r) 0); [contradiction|].
  destruct Hr as (Hco & Hf & Hsym). cbn. repeat split; auto. congruence.
Qed.

Lemma local_set s x c' st' d0 id0 : sc_me c' = sc_me (chan s x) ->
  (forall id, id <> id0 -> sc_swaps c' !! id = sc_swaps (chan s x) !! id) ->
  (forall d id, (d, id) <> (d0, id0) -> st' !! (d, id) = sst s !! (d, id)) ->
  local_change s (set_chan s x c' st') d0 id0.
Proof.
  intros Hme Hsw Hst. repeat split.
  - intros y. rewrite chan_set. destruct (Bool.eqb_spec x y) as [->|]; auto.
  - intros y id Hne. rewrite chan_set. destruct (Bool.eqb_spec x y) as [->|]; auto.
  - intros d id Hne. unfold stat. rewrite sst_set, Hst by exact Hne. reflexivity.
Qed.

Lemma wf_set s x c' st' : SInv s -> sc_me c' = sc_me (chan s x) -> wfchan c' ->
  forall y, wfchan (chan (set_chan s x c' st') y).
Proof. intros HI Hme Hwf y. rewrite chan_set. destruct (Bool.eqb x y); [exact Hwf|apply (si_wf _ HI)]. Qed.

Lemma ne_set s x c' st' : SInv s -> sc_me c' = sc_me (chan s x) ->
  sc_me (chan (set_chan s x c' st') true) <> sc_me (chan (set_chan s x c' st') false).
Proof. intros HI Hme. rewrite !chan_set. destruct x; cbn; rewrite ?Hme; apply (si_ne _ HI). Qed.

Lemma wf_delete c c' id : wfchan c -> sc_me c' = sc_me c -> sc_swaps c' = delete id (sc_swaps c) -> wfchan c'.
Proof.
  intros Hwf Hme Hsw id' r. rewrite Hsw, Hme. intros H. apply lookup_delete_Some in H as [_ H]. eapply Hwf, H.
Qed.
Lemma wf_insert c c' id r : wfchan c -> sc_me c' = sc_me c -> sc_swaps c' = <[id := r]> (sc_swaps c) -> wfrec (sc_me c) r -> wfchan c'.
Proof.
  intros Hwf Hme Hsw Hr id' r'. rewrite Hsw, Hme. intros H. apply lookup_insert_Some in H as [[_ <-]|[_ H]]; [exact Hr|eapply Hwf, H].
Qed.

Lemma bool_cases (d d' : bool) : d' = d \/ d' = negb d.
Proof. destruct d, d'; auto. Qed.

Ltac chs := rewrite ?chan_set, ?Bool.negb_involutive, ?Bool.eqb_reflx, ?Bool.eqb_negb1, ?Bool.eqb_negb2.
Ltac chs_in H := rewrite ?chan_set, ?Bool.negb_involutive, ?Bool.eqb_reflx, ?Bool.eqb_negb1, ?Bool.eqb_negb2 in H.

Lemma sstep_inv s s' : sstep s s' -> SInv s -> SInv s'.
Proof.
  intros Hs HI. pose proof (si_link _ HI) as Hl.
  destruct Hs as [|d sender id sym grp to amt h c' ev Hsn Ha|d id r c' ev Hst Ho Hd Hc Ht Ha|d id key c' ev Hst Ha
                  |d id r c' ev Hst Ho Ha|d id c' ev Hst Ha|d id r c' ev Hst Ho Hc Ha]; [exact HI|..].
  - (* begin *)
    destruct (begin_effect _ _ _ _ _ _ _ _ _ _ Ha) as (Hn & Hsw & Hme & Hs1 & Ha0 & Hsym & _).
    split; [apply ne_set; auto| |].
    + apply wf_set; auto. eapply wf_insert; eauto; [apply (si_wf _ HI)|].
      unfold wfrec. cbn. destruct (N.eqb_spec sender 0); [contradiction|]. repeat split; auto.
    + eapply (link_frame s _ d id); [apply local_set; auto; intros id' Hne; rewrite Hsw, lookup_insert_ne by congruence; reflexivity|exact Hl|].
      intros d'. rewrite stat_set_same. intros Hst. destruct (Hl d' id Hst) as (r & Hr1 & Hr2 & Hr3 & Hr4).
      destruct (bool_cases d d') as [->| ->].
      * rewrite Hn in Hr1. discriminate.
      * chs. chs_in Hr3. chs_in Hr4. exists r. repeat split; auto; [congruence|].
        intros Hans. specialize (Hr4 Hans). rewrite Hn in Hr4. discriminate.
  - (* answer *)
    destruct (answer_effect _ _ _ _ _ Ha) as (_ & Hsw & Hme & Hdr & _).
    split; [apply ne_set; auto| |].
    + apply wf_set; auto. eapply wf_insert; eauto; [apply (si_wf _ HI)|].
      eapply wf_copy; eauto; [eapply (si_wf _ HI), Ho|apply me_ne, HI].
    + eapply (link_frame s _ d id); [apply local_set; auto|exact Hl|].
      { intros id' Hne; rewrite Hsw, lookup_insert_ne by congruence; reflexivity. }
      { intros d' id' Hne. rewrite lookup_insert_ne by congruence. reflexivity. }
      intros d'. destruct (bool_cases d d') as [->| ->].
      * rewrite stat_set_insert_eq. intros _. chs. exists r. repeat split; auto; [congruence|].
        intros _. rewrite Hsw. apply lookup_insert.
      * rewrite stat_set_insert_ne by (destruct d; cbn; congruence). intros Hst'.
        destruct (Hl _ _ Hst') as (r' & Hr1 & _). rewrite Hd in Hr1. discriminate.
  - (* user done *)
    destruct (userdone_effect _ _ _ _ _ Ha) as (rc & Hrc & Hco & Hk & Hsw & Hme & _).
    assert (Hst' : stat s d id <> StNone) by (rewrite Hst; discriminate).
    destruct (Hl _ _ Hst') as (r & Hr1 & Hr2 & Hr3 & Hr4). specialize (Hr4 Hst).
    split; [apply ne_set; auto| |].
    + apply wf_set; auto. eapply wf_delete; eauto. apply (si_wf _ HI).
    + eapply (link_frame s _ d id); [apply local_set; auto|exact Hl|].
      { intros id' Hne; rewrite Hsw, lookup_delete_ne by congruence; reflexivity. }
      { intros d' id' Hne. rewrite lookup_insert_ne by congruence. reflexivity. }
      intros d'. destruct (bool_cases d d') as [->| ->].
      * rewrite stat_set_insert_eq. intros _. chs. exists r. repeat split; auto; [congruence|discriminate].
      * rewrite stat_set_insert_ne by (destruct d; cbn; congruence). intros Hst2.
        destruct (Hl _ _ Hst2) as (r' & Hr1' & Hr2' & _). rewrite Hr4 in Hr1'. injection Hr1' as <-. cbn in Hr2'. contradiction.
  - (* robot done *)
    destruct (robotdone_effect _ _ _ _ _ Ha) as (rc & Hrc & Hk & Hsw & Hme & _).
    split; [apply ne_set; auto| |].
    + apply wf_set; auto. eapply wf_delete; eauto. apply (si_wf _ HI).
    + eapply (link_frame s _ d id); [apply local_set; auto|exact Hl|].
      { intros id' Hne; rewrite Hsw, lookup_delete_ne by congruence; reflexivity. }
      { intros d' id' Hne. rewrite lookup_delete_ne by congruence. reflexivity. }
      intros d'. destruct (bool_cases d d') as [->| ->].
      * rewrite stat_set_delete_eq. congruence.
      * rewrite stat_set_delete_ne by (destruct d; cbn; congruence). intros Hst2.
        destruct (Hl _ _ Hst2) as (r' & Hr1' & Hr2' & Hr3' & Hr4'). chs_in Hr3'. chs_in Hr4'. chs.
        exists r'. repeat split; auto; [congruence|]. intros Hans. specialize (Hr4' Hans).
        rewrite Ho in Hr4'. injection Hr4' as ->. 
        assert (Hst3 : stat s d id <> StNone) by (rewrite Hst; discriminate).
        destruct (Hl _ _ Hst3) as (r2 & Hr21 & Hr22 & _). rewrite Ho in Hr21. injection Hr21 as <-. cbn in Hr22. contradiction.
  - (* cancel at the destination *)
    destruct (cancel_effect _ _ _ _ Ha) as (rc & Hrc & Hsw & Hme & _).
    assert (Hst' : stat s d id <> StNone) by (rewrite Hst; discriminate).
    destruct (Hl _ _ Hst') as (r & Hr1 & Hr2 & Hr3 & Hr4). specialize (Hr4 Hst).
    split; [apply ne_set; auto| |].
    + apply wf_set; auto. eapply wf_delete; eauto. apply (si_wf _ HI).
    + eapply (link_frame s _ d id); [apply local_set; auto|exact Hl|].
      { intros id' Hne; rewrite Hsw, lookup_delete_ne by congruence; reflexivity. }
      { intros d' id' Hne. rewrite lookup_insert_ne by congruence. reflexivity. }
      intros d'. destruct (bool_cases d d') as [->| ->].
      * rewrite stat_set_insert_eq. intros _. chs. exists r. repeat split; auto; [congruence|discriminate].
      * rewrite stat_set_insert_ne by (destruct d; cbn; congruence). intros Hst2.
        destruct (Hl _ _ Hst2) as (r' & Hr1' & Hr2' & _). rewrite Hr4 in Hr1'. injection Hr1' as <-. cbn in Hr2'. contradiction.
  - (* cancel at the origin *)
    destruct (cancel_effect _ _ _ _ Ha) as (rc & Hrc & Hsw & Hme & _).
    split; [apply ne_set; auto| |].
    + apply wf_set; auto. eapply wf_delete; eauto. apply (si_wf _ HI).
    + eapply (link_frame s _ d id); [apply local_set; auto|exact Hl|].
      { intros id' Hne; rewrite Hsw, lookup_delete_ne by congruence; reflexivity. }
      { intros d' id' Hne. rewrite lookup_delete_ne by congruence. reflexivity. }
      intros d'. destruct (bool_cases d d') as [->| ->].
      * rewrite stat_set_delete_eq. congruence.
      * rewrite stat_set_delete_ne by (destruct d; cbn; congruence). intros Hst2.
        destruct (Hl _ _ Hst2) as (r' & Hr1' & Hr2' & Hr3' & Hr4'). chs_in Hr3'. chs_in Hr4'. chs.
        exists r'. repeat split; auto; [congruence|]. intros Hans. specialize (Hr4' Hans).
        rewrite Ho in Hr4'. injection Hr4' as ->. cbn in Hc. contradiction.
Qed.

(* ---- value accounting over both channels ---------------------------------------------------- *)
Definition valP (me u t : N) (k : N * N * N) : bool :=
  N.eqb (snd (fst k)) u && (if N.eqb t me then N.eqb (fst (fst k)) KTok else heldP t k).
Definition val (c : schan) (u t : N) : Z := bsum (valP (sc_me c) u t) (sc_bal c).
Definition wt (pr : swaprec -> bool) (ps : status -> bool) (s : ssys) (d : bool) (id : N) (r : swaprec) : Z :=
  if pr r && ps (stat s d id) then sw_amt r else 0.
Definition wsum pr ps (s : ssys) (d : bool) : Z := msum (wt pr ps s d) (sc_swaps (chan s d)).
Definition wtl pr ps (s : ssys) (d : bool) (id : N) : Z :=
  match sc_swaps (chan s d) !! id with Some r => wt pr ps s d id r | None => 0 end.

Lemma wsum_local pr ps s s' d0 id0 d : local_change s s' d0 id0 ->
  wsum pr ps s' d = wsum pr ps s d - wtl pr ps s d id0 + wtl pr ps s' d id0.
Proof.
  intros (_ & Hsw & Hst). unfold wsum, wtl.
  assert (E0 : msum (wt pr ps s d) (sc_swaps (chan s d)) =
              msum (wt pr ps s d) (delete id0 (sc_swaps (chan s d))) +
              match sc_swaps (chan s d) !! id0 with Some r => wt pr ps s d id0 r | None => 0 end).
  { rewrite msum_delete'. lia. }
  assert (E : msum (wt pr ps s' d) (sc_swaps (chan s' d)) =
              msum (wt pr ps s' d) (delete id0 (sc_swaps (chan s' d))) +
              match sc_swaps (chan s' d) !! id0 with Some r => wt pr ps s' d id0 r | None => 0 end).
  { rewrite msum_delete'. lia. }
  rewrite E, E0. assert (Hd : delete id0 (sc_swaps (chan s' d)) = delete id0 (sc_swaps (chan s d))).
  { apply map_eq. intros id. destruct (decide (id = id0)) as [->|Hne]; [rewrite !lookup_delete; reflexivity|].
    rewrite !lookup_delete_ne by congruence. apply Hsw, Hne. }
  rewrite Hd. rewrite (msum_ext (wt pr ps s' d) (wt pr ps s d)); [lia|].
  intros id r Hl. apply lookup_delete_Some in Hl as [Hne _]. unfold wt. rewrite Hst by congruence. reflexivity.
Qed.

Lemma heldP_allowed t u sym grp : (sym < 1000)%N -> heldP t (KAllowed, u, tk_enc sym grp) = N.eqb t sym.
Proof. intros H. unfold heldP. cbn [fst snd]. rewrite N.eqb_refl, tk_sym_enc by exact H. cbn. apply N.eqb_sym. Qed.

Lemma valP_given me u t x : valP me u t (KGiven, x, 0%N) = false.
Proof. unfold valP, heldP. cbn. destruct (N.eqb x u), (N.eqb t me); reflexivity. Qed.

Lemma val_begin me u t s sym grp to amt : (sym < 1000)%N -> (sym = me \/ sym = to /\ to <> me) ->
  chgP (valP me u t) (BSub (begin_key me s sym grp) amt) = - (if N.eqb s u && N.eqb sym t then amt else 0).
Proof.
  intros Hs Hsym. unfold begin_key. cbn [chgP]. f_equal.
  destruct (N.eqb_spec sym me) as [->|Hne].
  - unfold valP. cbn [fst snd]. rewrite (N.eqb_sym me t). destruct (N.eqb t me); cbn; reflexivity.
  - unfold valP. cbn [fst snd]. rewrite heldP_allowed by exact Hs.
    destruct (N.eqb_spec t me) as [->|]; [|rewrite (N.eqb_sym sym t); reflexivity].
    destruct (N.eqb_spec sym me); [contradiction|]. rewrite ?andb_false_r; reflexivity.
Qed.

Lemma val_userdone me u t r : wfrec me r -> sw_creator r = 0%N ->
  chgP (valP me u t) (userdone_chg r) = if N.eqb (sw_owner r) u && N.eqb (sw_sym r) t then sw_amt r else 0.
Proof.
  intros (Hs & _ & _ & Hr) Hc. rewrite Hc in Hr. cbn in Hr. destruct Hr as (Hto & Hfrom & Hdr).
  unfold userdone_chg, direct, reverse in *. destruct (N.eqb_spec (sw_sym r) (sw_from r)) as [Ef|Ef]; cbn [chgP].
  - unfold valP. cbn [fst snd]. rewrite heldP_allowed by exact Hs.
    destruct (N.eqb_spec t me) as [->|]; [|rewrite (N.eqb_sym (sw_sym r) t); reflexivity].
    destruct (N.eqb_spec (sw_sym r) me); [congruence|]. cbn; rewrite ?andb_false_r; reflexivity.
  - destruct Hdr as [?|Hrev]; [discriminate|]. apply N.eqb_eq in Hrev. unfold valP, heldP. cbn [fst snd].
    rewrite Hrev, Hto, (N.eqb_sym me t). destruct (N.eqb t me); cbn; rewrite ?andb_false_r; reflexivity.
Qed.

Lemma val_cancel_orig me u t r : wfrec me r -> sw_creator r <> 0%N ->
  chgP (valP me u t) (cancel_chg r) = if N.eqb (sw_owner r) u && N.eqb (sw_sym r) t then sw_amt r else 0.
Proof.
  intros (Hs & _ & _ & Hr) Hc. destruct (N.eqb_spec (sw_creator r) 0); [contradiction|]. destruct Hr as (Hco & Hfrom & Hsym).
  unfold cancel_chg, own, direct, reverse. rewrite Hco, N.eqb_refl, Hfrom. cbn [andb].
  destruct Hsym as [Hm|[Ht Hne]].
  - rewrite Hm, N.eqb_refl. cbn [chgP]. unfold valP. cbn [fst snd]. rewrite (N.eqb_sym me t).
    destruct (N.eqb t me); cbn; rewrite ?andb_false_r; reflexivity.
  - destruct (N.eqb_spec (sw_sym r) me); [congruence|]. rewrite Ht, N.eqb_refl. cbn [chgP].
    unfold valP. cbn [fst snd]. rewrite <- Ht at 1. rewrite heldP_allowed by exact Hs. rewrite <- Ht.
    destruct (N.eqb_spec t me) as [->|]; [|rewrite (N.eqb_sym (sw_sym r) t); reflexivity].
    destruct (N.eqb_spec (sw_sym r) me); [congruence|]. cbn; rewrite ?andb_false_r; reflexivity.
Qed.

Lemma val_cancel_copy me u t r : wfrec me r -> sw_creator r = 0%N -> chgP (valP me u t) (cancel_chg r) = 0.
Proof.
  intros (Hs & _ & Ho & _) Hc. unfold cancel_chg, own. rewrite Hc. destruct (N.eqb_spec 0 (sw_owner r)); [congruence|].
  cbn [andb N.eqb]. destruct (reverse r); cbn [chgP]; [rewrite valP_given|]; reflexivity.
Qed.

Lemma val_answer me u t r : chgP (valP me u t) (answer_chg r) = 0.
Proof. unfold answer_chg. destruct (direct r); cbn [chgP]; [|rewrite valP_given]; reflexivity. Qed.
Lemma val_robotdone me u t r : chgP (valP me u t) (robotdone_chg r) = 0.
Proof. unfold robotdone_chg. destruct (direct r); cbn [chgP]; [rewrite valP_given|]; reflexivity. Qed.

Lemma val_chg c c' ch u t : sc_me c' = sc_me c -> bchg_ok (sc_bal c) ch (sc_bal c') ->
  val c' u t = val c u t + chgP (valP (sc_me c) u t) ch.
Proof. intros Hme Hb. unfold val. rewrite Hme. apply bchg_sum, Hb. Qed.

Definition origP (u t : N) (r : swaprec) : bool :=
  negb (N.eqb (sw_creator r) 0) && N.eqb (sw_owner r) u && N.eqb (sw_sym r) t.
Definition notdone (st : status) : bool := match st with StDestDone => false | _ => true end.
Definition Vtot (s : ssys) (u t : N) : Z :=
  val (chan s true) u t + val (chan s false) u t + wsum (origP u t) notdone s true + wsum (origP u t) notdone s false.

Lemma Vtot_dir s u t d : Vtot s u t =
  val (chan s d) u t + val (chan s (negb d)) u t + wsum (origP u t) notdone s d + wsum (origP u t) notdone s (negb d).
Proof. unfold Vtot. destruct d; cbn [negb]; lia. Qed.

Lemma no_record_no_status s d id : link s -> sc_swaps (chan s d) !! id = None -> stat s d id = StNone.
Proof.
  intros Hl Hn. destruct (decide (stat s d id = StNone)) as [|Hne]; [assumption|].
  destruct (Hl _ _ Hne) as (r & Hr & _). congruence.
Qed.

Lemma origP_copy u t r : origP u t (copy_of r) = false.
Proof. reflexivity. Qed.

Theorem sstep_V s s' u t : sstep s s' -> SInv s -> Vtot s' u t = Vtot s u t.
Proof.
  intros Hs HI. pose proof (si_link _ HI) as Hl.
  destruct Hs as [|d sender id sym grp to amt h c' ev Hsn Ha|d id r c' ev Hst Ho Hd Hc Ht Ha|d id key c' ev Hst Ha
                  |d id r c' ev Hst Ho Ha|d id c' ev Hst Ha|d id r c' ev Hst Ho Hc Ha]; [reflexivity|..];
    rewrite !(Vtot_dir _ u t d).
  - destruct (begin_effect _ _ _ _ _ _ _ _ _ _ Ha) as (Hn & Hsw & Hme & Hs1 & Ha0 & Hsym & Hb).
    assert (Hloc : local_change s (set_chan s d c' (sst s)) d id).
    { apply local_set; auto. intros id' Hne; rewrite Hsw, lookup_insert_ne by congruence; reflexivity. }
    rewrite !(wsum_local _ _ _ _ _ _ _ Hloc). chs.
    rewrite (val_chg _ _ _ u t Hme Hb), (val_begin _ _ _ _ _ _ to) by assumption.
    unfold wtl, wt. chs. rewrite !stat_set_same, Hn, Hsw, lookup_insert, (no_record_no_status _ _ _ Hl Hn).
    unfold origP. cbn. destruct (N.eqb_spec sender 0); [contradiction|]. cbn.
    rewrite andb_true_r. lia.
  -
    destruct (answer_effect _ _ _ _ _ Ha) as (_ & Hsw & Hme & Hdr & Hb).
    assert (Hloc : local_change s (set_chan s (negb d) c' (<[(d, id) := StAnswered]> (sst s))) d id).
    { apply local_set; auto. intros id' Hne; rewrite Hsw, lookup_insert_ne by congruence; reflexivity.
      intros d' id' Hne. rewrite lookup_insert_ne by congruence. reflexivity. }
    rewrite !(wsum_local _ _ _ _ _ _ _ Hloc). chs.
    rewrite (val_chg _ _ _ u t Hme Hb), val_answer.
    unfold wtl, wt. chs. rewrite stat_set_insert_eq, Hst, Ho, Hd, Hsw, lookup_insert, origP_copy. cbn. lia.
  - destruct (userdone_effect _ _ _ _ _ Ha) as (rc & Hrc & Hco & Hk & Hsw & Hme & Hb).
    assert (Hst' : stat s d id <> StNone) by (rewrite Hst; discriminate).
    destruct (Hl _ _ Hst') as (r & Hr1 & Hr2 & Hr3 & Hr4). specialize (Hr4 Hst). rewrite Hr4 in Hrc. injection Hrc as <-.
    assert (Hloc : local_change s (set_chan s (negb d) c' (<[(d, id) := StDestDone]> (sst s))) d id).
    { apply local_set; auto. intros id' Hne; rewrite Hsw, lookup_delete_ne by congruence; reflexivity.
      intros d' id' Hne. rewrite lookup_insert_ne by congruence. reflexivity. }
    rewrite !(wsum_local _ _ _ _ _ _ _ Hloc). chs.
    rewrite (val_chg _ _ _ u t Hme Hb), val_userdone by (try reflexivity; eapply (si_wf _ HI), Hr4).
    unfold wtl, wt. chs. rewrite stat_set_insert_eq, Hst, Hr1, Hr4, Hsw, lookup_delete, origP_copy.
    unfold origP. cbn. destruct (N.eqb_spec (sw_creator r) 0); [contradiction|]. cbn. rewrite ?andb_true_r, ?andb_false_r. lia.
  - destruct (robotdone_effect _ _ _ _ _ Ha) as (rc & Hrc & Hk & Hsw & Hme & Hb).
    assert (Hloc : local_change s (set_chan s d c' (delete (d, id) (sst s))) d id).
    { apply local_set; auto. intros id' Hne; rewrite Hsw, lookup_delete_ne by congruence; reflexivity.
      intros d' id' Hne. rewrite lookup_delete_ne by congruence. reflexivity. }
    rewrite !(wsum_local _ _ _ _ _ _ _ Hloc). chs.
    rewrite (val_chg _ _ _ u t Hme Hb), val_robotdone.
    unfold wtl, wt. chs. rewrite stat_set_delete_eq, stat_set_delete_ne by (destruct d; cbn; congruence).
    rewrite Hst, Ho, Hsw, lookup_delete. cbn. rewrite andb_false_r. lia.
  - destruct (cancel_effect _ _ _ _ Ha) as (rc & Hrc & Hsw & Hme & Hb).
    assert (Hst' : stat s d id <> StNone) by (rewrite Hst; discriminate).
    destruct (Hl _ _ Hst') as (r & Hr1 & Hr2 & Hr3 & Hr4). specialize (Hr4 Hst). rewrite Hr4 in Hrc. injection Hrc as <-.
    assert (Hloc : local_change s (set_chan s (negb d) c' (<[(d, id) := StDestCancelled]> (sst s))) d id).
    { apply local_set; auto. intros id' Hne; rewrite Hsw, lookup_delete_ne by congruence; reflexivity.
      intros d' id' Hne. rewrite lookup_insert_ne by congruence. reflexivity. }
    rewrite !(wsum_local _ _ _ _ _ _ _ Hloc). chs.
    rewrite (val_chg _ _ _ u t Hme Hb), val_cancel_copy by (try reflexivity; eapply (si_wf _ HI), Hr4).
    unfold wtl, wt. chs. rewrite stat_set_insert_eq, Hst, Hr1, Hr4, Hsw, lookup_delete, origP_copy. cbn. lia.
  - destruct (cancel_effect _ _ _ _ Ha) as (rc & Hrc & Hsw & Hme & Hb). rewrite Ho in Hrc. injection Hrc as <-.
    assert (Hloc : local_change s (set_chan s d c' (delete (d, id) (sst s))) d id).
    { apply local_set; auto. intros id' Hne; rewrite Hsw, lookup_delete_ne by congruence; reflexivity.
      intros d' id' Hne. rewrite lookup_delete_ne by congruence. reflexivity. }
    rewrite !(wsum_local _ _ _ _ _ _ _ Hloc). chs.
    rewrite (val_chg _ _ _ u t Hme Hb), val_cancel_orig by (try assumption; eapply (si_wf _ HI), Ho).
    unfold wtl, wt. chs. rewrite stat_set_delete_eq, stat_set_delete_ne by (destruct d; cbn; congruence).
    rewrite Ho, Hsw, lookup_delete. unfold origP. destruct (N.eqb_spec (sw_creator r) 0); [contradiction|]. cbn [negb andb].
    destruct Hst as [-> | ->]; cbn [notdone]; rewrite andb_true_r; lia.
Qed.

(* ---- the given-out counter against what the other channel holds ---------------------------- *)
Definition sgiv (c : schan) (x : N) : Z := giv (sc_bal c) x.
Definition sheld (c : schan) (t : N) : Z := held (sc_bal c) t.
Definition origT (t : N) (r : swaprec) : bool := negb (N.eqb (sw_creator r) 0) && N.eqb (sw_sym r) t.
Definition isdone (st : status) : bool := match st with StDestDone => true | _ => false end.
Definition unanswered (st : status) : bool := match st with StNone | StDestCancelled => true | _ => false end.
Definition Gd (s : ssys) (g : bool) : Z :=
  sgiv (chan s g) (sc_me (chan s (negb g))) - sheld (chan s (negb g)) (sc_me (chan s g))
  + wsum (origT (sc_me (chan s g))) isdone s g - wsum (origT (sc_me (chan s g))) unanswered s (negb g).

Lemma sgiv_chg c c' ch x : bchg_ok (sc_bal c) ch (sc_bal c') -> sgiv c' x = sgiv c x + chg_at (KGiven, x, 0%N) ch.
Proof. intros H. unfold sgiv, giv. apply bchg_get, H. Qed.
Lemma sheld_chg c c' ch t : bchg_ok (sc_bal c) ch (sc_bal c') -> sheld c' t = sheld c t + chgP (heldP t) ch.
Proof. intros H. unfold sheld, held. apply bchg_sum, H. Qed.

Lemma at_key_giv u x a : at_key (KGiven, u, 0%N) (KGiven, x, 0%N) a = if N.eqb x u then a else 0.
Proof.
  unfold at_key. destruct (N.eqb_spec x u) as [->|Hne]; [rewrite decide_True; reflexivity|].
  rewrite decide_False; [reflexivity|congruence].
Qed.
Lemma at_key_nogiv kd u g x a : kd <> KGiven -> at_key (kd, u, g) (KGiven, x, 0%N) a = 0.
Proof. intros H. unfold at_key. rewrite decide_False; [reflexivity|congruence]. Qed.

Lemma held_begin me t s sym grp amt : (sym < 1000)%N ->
  chgP (heldP t) (BSub (begin_key me s sym grp) amt) = - (if negb (N.eqb sym me) && N.eqb t sym then amt else 0).
Proof.
  intros Hs. unfold begin_key. destruct (N.eqb sym me); cbn [chgP negb andb]; [reflexivity|].
  rewrite heldP_allowed by exact Hs. reflexivity.
Qed.
Lemma giv_begin me x s sym grp amt : chg_at (KGiven, x, 0%N) (BSub (begin_key me s sym grp) amt) = 0.
Proof. unfold begin_key. destruct (N.eqb sym me); cbn [chg_at]; rewrite at_key_nogiv by discriminate; reflexivity. Qed.
Lemma held_answer t r : chgP (heldP t) (answer_chg r) = 0.
Proof. unfold answer_chg. destruct (direct r); reflexivity. Qed.
Lemma giv_answer x r : chg_at (KGiven, x, 0%N) (answer_chg r) = - (if negb (direct r) && N.eqb x (sw_from r) then sw_amt r else 0).
Proof. unfold answer_chg. destruct (direct r); cbn [chg_at negb andb]; [reflexivity|]. rewrite at_key_giv. reflexivity. Qed.
Lemma held_userdone t r : (sw_sym r < 1000)%N ->
  chgP (heldP t) (userdone_chg r) = if direct r && N.eqb t (sw_sym r) then sw_amt r else 0.
Proof. intros Hs. unfold userdone_chg. destruct (direct r); cbn [chgP andb]; [rewrite heldP_allowed by exact Hs|]; reflexivity. Qed.
Lemma giv_userdone x r : chg_at (KGiven, x, 0%N) (userdone_chg r) = 0.
Proof. unfold userdone_chg. destruct (direct r); cbn [chg_at]; rewrite at_key_nogiv by discriminate; reflexivity. Qed.
Lemma held_robotdone t r : chgP (heldP t) (robotdone_chg r) = 0.
Proof. unfold robotdone_chg. destruct (direct r); reflexivity. Qed.
Lemma giv_robotdone x r : chg_at (KGiven, x, 0%N) (robotdone_chg r) = if direct r && N.eqb x (sw_to r) then sw_amt r else 0.
Proof. unfold robotdone_chg. destruct (direct r); cbn [chg_at andb]; [rewrite at_key_giv|]; reflexivity. Qed.

Lemma orig_direct me r : wfrec me r -> sw_creator r <> 0%N -> direct r = N.eqb (sw_sym r) me.
Proof. intros (_ & _ & _ & Hr) Hc. destruct (N.eqb_spec (sw_creator r) 0); [contradiction|]. destruct Hr as (_ & Hf & _). unfold direct. rewrite Hf. reflexivity. Qed.
Lemma orig_reverse me r : wfrec me r -> sw_creator r <> 0%N -> sw_to r <> me -> reverse r = negb (N.eqb (sw_sym r) me).
Proof.
  intros (_ & _ & _ & Hr) Hc Ht. destruct (N.eqb_spec (sw_creator r) 0); [contradiction|]. destruct Hr as (_ & _ & Hsym).
  unfold reverse. destruct Hsym as [->|[-> _]].
  - rewrite N.eqb_refl. cbn. apply N.eqb_neq. congruence.
  - rewrite N.eqb_refl. symmetry. apply negb_true_iff, N.eqb_neq. exact Ht.
Qed.

Lemma held_cancel_orig me t r : wfrec me r -> sw_creator r <> 0%N ->
  chgP (heldP t) (cancel_chg r) = if negb (N.eqb (sw_sym r) me) && N.eqb t (sw_sym r) then sw_amt r else 0.
Proof.
  intros Hwf Hc. pose proof (orig_direct _ _ Hwf Hc) as Hd. destruct Hwf as (Hs & _ & _ & Hr).
  destruct (N.eqb_spec (sw_creator r) 0); [contradiction|]. destruct Hr as (Hco & Hf & Hsym).
  unfold cancel_chg, own. rewrite Hco, N.eqb_refl, Hd. cbn [andb].
  destruct (N.eqb_spec (sw_sym r) me) as [E|E]; cbn [chgP negb andb]; [reflexivity|].
  destruct Hsym as [?|[Ht _]]; [contradiction|]. unfold reverse. rewrite <- Ht, N.eqb_refl. cbn [chgP].
  rewrite heldP_allowed by exact Hs. reflexivity.
Qed.
Lemma giv_cancel_orig me x r : wfrec me r -> sw_creator r <> 0%N -> chg_at (KGiven, x, 0%N) (cancel_chg r) = 0.
Proof.
  intros Hwf Hc. destruct Hwf as (Hs & _ & _ & Hr).
  destruct (N.eqb_spec (sw_creator r) 0) as [|Hc0]; [contradiction|]. destruct Hr as (Hco & Hf & Hsym).
  unfold cancel_chg, own. rewrite Hco, N.eqb_refl. cbn [andb].
  destruct (direct r); cbn [chg_at]; [rewrite at_key_nogiv by discriminate; reflexivity|].
  destruct (reverse r); cbn [chg_at]; [rewrite at_key_nogiv by discriminate; reflexivity|].
  rewrite <- Hco. apply N.eqb_neq in Hc0. rewrite Hc0. reflexivity.
Qed.
Lemma held_cancel_copy me t r : wfrec me r -> sw_creator r = 0%N -> chgP (heldP t) (cancel_chg r) = 0.
Proof.
  intros (Hs & _ & Ho & _) Hc. unfold cancel_chg, own. rewrite Hc. destruct (N.eqb_spec 0 (sw_owner r)); [congruence|].
  cbn [andb N.eqb]. destruct (reverse r); reflexivity.
Qed.
Lemma giv_cancel_copy me x r : wfrec me r -> sw_creator r = 0%N ->
  chg_at (KGiven, x, 0%N) (cancel_chg r) = if reverse r && N.eqb x (sw_from r) then sw_amt r else 0.
Proof.
  intros (Hs & _ & Ho & _) Hc. unfold cancel_chg, own. rewrite Hc. destruct (N.eqb_spec 0 (sw_owner r)); [congruence|].
  cbn [andb N.eqb]. destruct (reverse r); cbn [chg_at andb]; [rewrite at_key_giv|]; reflexivity.
Qed.

Ltac bcrunch := repeat match goal with |- context [N.eqb ?a ?b] => destruct (N.eqb_spec a b) end;
  cbn [negb andb notdone isdone unanswered]; try lia; try congruence.

Lemma origT_copy t r : origT t (copy_of r) = false.
Proof. reflexivity. Qed.

Theorem sstep_G s s' g : sstep s s' -> SInv s -> Gd s' g = Gd s g.
Proof.
  intros Hs HI. pose proof (si_link _ HI) as Hl. pose proof (me_ne s g HI) as Hne.
  destruct Hs as [|d sender id sym grp to amt h c' ev Hsn Ha|d id r c' ev Hst Ho Hd Hc Ht Ha|d id key c' ev Hst Ha
                  |d id r c' ev Hst Ho Ha|d id c' ev Hst Ha|d id r c' ev Hst Ho Hc Ha]; [reflexivity|..]; unfold Gd.
  - destruct (begin_effect _ _ _ _ _ _ _ _ _ _ Ha) as (Hn & Hsw & Hme & Hs1 & Ha0 & Hsym & Hb).
    assert (Hloc : local_change s (set_chan s d c' (sst s)) d id).
    { apply local_set; auto. intros id' Hne'; rewrite Hsw, lookup_insert_ne by congruence; reflexivity. }
    rewrite !(proj1 Hloc), !(wsum_local _ _ _ _ _ _ _ Hloc). unfold wtl, wt.
    destruct (bool_cases d g) as [->| ->]; chs; chs_in Hne.
    + rewrite (sgiv_chg _ _ _ _ Hb), giv_begin, !stat_set_same, Hn, Hsw, lookup_insert, (no_record_no_status _ _ _ Hl Hn).
      cbn [isdone]. rewrite andb_false_r. lia.
    + rewrite (sheld_chg _ _ _ _ Hb), held_begin, !stat_set_same, Hn, Hsw, lookup_insert, (no_record_no_status _ _ _ Hl Hn) by assumption.
      unfold origT. cbn [sw_creator sw_sym sw_amt unanswered]. destruct (N.eqb_spec sender 0); [contradiction|].
      bcrunch.
  -
    destruct (answer_effect _ _ _ _ _ Ha) as (_ & Hsw & Hme & Hdr & Hb).
    assert (Hloc : local_change s (set_chan s (negb d) c' (<[(d, id) := StAnswered]> (sst s))) d id).
    { apply local_set; auto. intros id' Hne'; rewrite Hsw, lookup_insert_ne by congruence; reflexivity.
      intros d' id' Hne'. rewrite lookup_insert_ne by congruence. reflexivity. }
    rewrite !(proj1 Hloc), !(wsum_local _ _ _ _ _ _ _ Hloc). unfold wtl, wt.
    pose proof (si_wf _ HI _ _ _ Ho) as Hwf. pose proof (me_ne s d HI) as Hned.
    pose proof (orig_direct _ _ Hwf Hc) as Hdir.
    destruct (bool_cases d g) as [->| ->]; chs; chs_in Hne.
    + rewrite (sheld_chg _ _ _ _ Hb), held_answer, stat_set_insert_eq, Hst, Ho, Hd, Hsw, lookup_insert.
      rewrite origT_copy. cbn [isdone andb]. rewrite !andb_false_r. lia.
    + rewrite (sgiv_chg _ _ _ _ Hb), giv_answer, stat_set_insert_eq, Hst, Ho, Hd, Hsw, lookup_insert, Hdir.
      destruct Hwf as (_ & _ & _ & Hr). destruct (N.eqb_spec (sw_creator r) 0); [contradiction|]. destruct Hr as (_ & Hf & Hsym).
      unfold origT. cbn [copy_of sw_creator N.eqb negb andb unanswered]. rewrite Hf.
      destruct (N.eqb_spec (sw_creator r) 0); [contradiction|]. cbn [negb andb].
      destruct Hsym as [Hsm|[Hst2 _]]; [rewrite Hsm|rewrite Hst2, Ht]; bcrunch.
  - destruct (userdone_effect _ _ _ _ _ Ha) as (rc & Hrc & Hco & Hk & Hsw & Hme & Hb).
    assert (Hst' : stat s d id <> StNone) by (rewrite Hst; discriminate).
    destruct (Hl _ _ Hst') as (r & Hr1 & Hr2 & Hr3 & Hr4). specialize (Hr4 Hst). rewrite Hr4 in Hrc. injection Hrc as <-.
    assert (Hloc : local_change s (set_chan s (negb d) c' (<[(d, id) := StDestDone]> (sst s))) d id).
    { apply local_set; auto. intros id' Hne'; rewrite Hsw, lookup_delete_ne by congruence; reflexivity.
      intros d' id' Hne'. rewrite lookup_insert_ne by congruence. reflexivity. }
    rewrite !(proj1 Hloc), !(wsum_local _ _ _ _ _ _ _ Hloc). unfold wtl, wt.
    pose proof (si_wf _ HI _ _ _ Hr1) as Hwf. pose proof (orig_direct _ _ Hwf Hr2) as Hdir.
    destruct (bool_cases d g) as [->| ->]; chs; chs_in Hne.
    + rewrite (sheld_chg _ _ _ _ Hb), held_userdone, stat_set_insert_eq, Hst, Hr1, Hr4, Hsw, lookup_delete by apply Hwf.
      change (direct (copy_of r)) with (direct r). rewrite Hdir.
      unfold origT. cbn [copy_of sw_creator sw_sym sw_amt N.eqb negb andb isdone].
      destruct (N.eqb_spec (sw_creator r) 0); [contradiction|]. bcrunch.
    + rewrite (sgiv_chg _ _ _ _ Hb), giv_userdone, stat_set_insert_eq, Hst, Hr1, Hr4, Hsw, lookup_delete.
      unfold origT. cbn [copy_of sw_creator sw_sym sw_amt N.eqb negb andb unanswered]. rewrite !andb_false_r. lia.
  - destruct (robotdone_effect _ _ _ _ _ Ha) as (rc & Hrc & Hk & Hsw & Hme & Hb). rewrite Ho in Hrc. injection Hrc as <-.
    assert (Hloc : local_change s (set_chan s d c' (delete (d, id) (sst s))) d id).
    { apply local_set; auto. intros id' Hne'; rewrite Hsw, lookup_delete_ne by congruence; reflexivity.
      intros d' id' Hne'. rewrite lookup_delete_ne by congruence. reflexivity. }
    rewrite !(proj1 Hloc), !(wsum_local _ _ _ _ _ _ _ Hloc). unfold wtl, wt.
    assert (Hst' : stat s d id <> StNone) by (rewrite Hst; discriminate).
    destruct (Hl _ _ Hst') as (r' & Hr1 & Hr2 & Hr3 & _). rewrite Ho in Hr1. injection Hr1 as <-.
    pose proof (si_wf _ HI _ _ _ Ho) as Hwf. pose proof (orig_direct _ _ Hwf Hr2) as Hdir.
    destruct (bool_cases d g) as [->| ->]; chs; chs_in Hne.
    + rewrite (sgiv_chg _ _ _ _ Hb), giv_robotdone, stat_set_delete_eq, stat_set_delete_ne by (destruct d; cbn; congruence).
      rewrite Hst, Ho, Hsw, lookup_delete, Hdir, Hr3. unfold origT.
      destruct (N.eqb_spec (sw_creator r) 0); [contradiction|]. bcrunch.
    + rewrite (sheld_chg _ _ _ _ Hb), held_robotdone, stat_set_delete_eq, stat_set_delete_ne by (destruct d; cbn; congruence).
      rewrite Hst, Ho, Hsw, lookup_delete. cbn [unanswered]. rewrite !andb_false_r. lia.
  - destruct (cancel_effect _ _ _ _ Ha) as (rc & Hrc & Hsw & Hme & Hb).
    assert (Hst' : stat s d id <> StNone) by (rewrite Hst; discriminate).
    destruct (Hl _ _ Hst') as (r & Hr1 & Hr2 & Hr3 & Hr4). specialize (Hr4 Hst). rewrite Hr4 in Hrc. injection Hrc as <-.
    assert (Hloc : local_change s (set_chan s (negb d) c' (<[(d, id) := StDestCancelled]> (sst s))) d id).
    { apply local_set; auto. intros id' Hne'; rewrite Hsw, lookup_delete_ne by congruence; reflexivity.
      intros d' id' Hne'. rewrite lookup_insert_ne by congruence. reflexivity. }
    rewrite !(proj1 Hloc), !(wsum_local _ _ _ _ _ _ _ Hloc). unfold wtl, wt.
    pose proof (si_wf _ HI _ _ _ Hr1) as Hwf. pose proof (si_wf _ HI _ _ _ Hr4) as Hwfc. pose proof (me_ne s d HI) as Hned.
    assert (Hrev : reverse r = negb (N.eqb (sw_sym r) (sc_me (chan s d)))) by (apply orig_reverse; auto; congruence).
    destruct (bool_cases d g) as [->| ->]; chs; chs_in Hne.
    + rewrite (sheld_chg _ _ _ _ Hb), (held_cancel_copy _ _ _ Hwfc), stat_set_insert_eq, Hst, Hr1, Hr4, Hsw, lookup_delete by reflexivity.
      unfold origT. cbn [copy_of sw_creator sw_sym sw_amt N.eqb negb andb isdone]. rewrite !andb_false_r. lia.
    + rewrite (sgiv_chg _ _ _ _ Hb), (giv_cancel_copy _ _ _ Hwfc), stat_set_insert_eq, Hst, Hr1, Hr4, Hsw, lookup_delete by reflexivity.
      change (reverse (copy_of r)) with (reverse r). rewrite Hrev.
      destruct Hwf as (_ & _ & _ & Hr). destruct (N.eqb_spec (sw_creator r) 0); [contradiction|]. destruct Hr as (_ & Hf & Hsym).
      unfold origT. cbn [copy_of sw_creator sw_sym sw_amt sw_from N.eqb negb andb unanswered]. rewrite Hf.
      destruct (N.eqb_spec (sw_creator r) 0); [contradiction|]. cbn [negb andb].
      destruct Hsym as [Hsm|[Hst2 _]]; [rewrite Hsm|rewrite Hst2, Hr3]; bcrunch.
  - destruct (cancel_effect _ _ _ _ Ha) as (rc & Hrc & Hsw & Hme & Hb). rewrite Ho in Hrc. injection Hrc as <-.
    assert (Hloc : local_change s (set_chan s d c' (delete (d, id) (sst s))) d id).
    { apply local_set; auto. intros id' Hne'; rewrite Hsw, lookup_delete_ne by congruence; reflexivity.
      intros d' id' Hne'. rewrite lookup_delete_ne by congruence. reflexivity. }
    rewrite !(proj1 Hloc), !(wsum_local _ _ _ _ _ _ _ Hloc). unfold wtl, wt.
    pose proof (si_wf _ HI _ _ _ Ho) as Hwf.
    destruct (bool_cases d g) as [->| ->]; chs; chs_in Hne.
    + rewrite (sgiv_chg _ _ _ _ Hb), (giv_cancel_orig _ _ _ Hwf Hc), stat_set_delete_eq, stat_set_delete_ne by (destruct d; cbn; congruence).
      rewrite Ho, Hsw, lookup_delete. destruct Hst as [-> | ->]; cbn [isdone]; rewrite !andb_false_r; lia.
    + rewrite (sheld_chg _ _ _ _ Hb), (held_cancel_orig _ _ _ Hwf Hc), stat_set_delete_eq, stat_set_delete_ne by (destruct d; cbn; congruence).
      rewrite Ho, Hsw, lookup_delete. unfold origT. destruct (N.eqb_spec (sw_creator r) 0); [contradiction|]. cbn [negb andb].
      destruct Hst as [-> | ->]; cbn [unanswered]; bcrunch.
Qed.

(* ---- all schedules ------------------------------------------------------------------------- *)
Lemma run_inv l s : SInv s -> SInv (ssys_run s l) /\ (forall u t, Vtot (ssys_run s l) u t = Vtot s u t) /\
  (forall g, Gd (ssys_run s l) g = Gd s g).
Proof.
  revert s. induction l as [|a l IH]; intros s HI; [auto|]. cbn [ssys_run fold_left].
  pose proof (ssys_step_sstep s a) as Hs. destruct (IH _ (sstep_inv _ _ Hs HI)) as (H1 & H2 & H3).
  split; [exact H1|]. split.
  - intros u t. rewrite H2. apply sstep_V; assumption.
  - intros g. rewrite H3. apply sstep_G; assumption.
Qed.

Lemma inv0 a b balA balB : a <> b -> SInv (ssys0 a b balA balB).
Proof.
  intros Hab. split; [exact Hab| |].
  - intros [|] id r; cbn; rewrite lookup_empty; discriminate.
  - intros d id. unfold stat. cbn. rewrite lookup_empty. cbn. congruence.
Qed.

Lemma wsum_empty pr ps s d : sc_swaps (chan s d) = ∅ -> wsum pr ps s d = 0.
Proof. intros H. unfold wsum. rewrite H. apply msum_empty. Qed.

Lemma wsum_nonneg pr ps s d : wfchan (chan s d) -> 0 <= wsum pr ps s d.
Proof.
  intros Hwf. unfold wsum. apply msum_nonneg. intros id r Hr. unfold wt. destruct (_ && _); [|lia]. apply (Hwf _ _ Hr).
Qed.

(* the owner's total spendable value over both channels never exceeds what they started with *)
Theorem value_never_exceeds a b balA balB l u t : a <> b ->
  let s0 := ssys0 a b balA balB in let s := ssys_run s0 l in
  val (ssA s) u t + val (ssB s) u t <= val (ssA s0) u t + val (ssB s0) u t /\
  (sc_swaps (ssA s) = ∅ -> sc_swaps (ssB s) = ∅ -> val (ssA s) u t + val (ssB s) u t = val (ssA s0) u t + val (ssB s0) u t).
Proof.
  intros Hab s0 s. destruct (run_inv l s0 (inv0 a b balA balB Hab)) as (HI & HV & _). fold s in HI, HV.
  specialize (HV u t). unfold Vtot in HV. change (chan s true) with (ssA s) in HV. change (chan s false) with (ssB s) in HV.
  change (chan s0 true) with (ssA s0) in HV. change (chan s0 false) with (ssB s0) in HV.
  pose proof (wsum_empty (origP u t) notdone s0 true eq_refl) as E1. pose proof (wsum_empty (origP u t) notdone s0 false eq_refl) as E2.
  pose proof (wsum_nonneg (origP u t) notdone s true (si_wf _ HI true)).
  pose proof (wsum_nonneg (origP u t) notdone s false (si_wf _ HI false)).
  split; [lia|]. intros EA EB. pose proof (wsum_empty (origP u t) notdone s true EA). pose proof (wsum_empty (origP u t) notdone s false EB). lia.
Qed.

(* once no swap is open the origin channel's given-out counter moved exactly as the destination's holdings did *)
Theorem given_matches_held a b balA balB l g : a <> b ->
  let s0 := ssys0 a b balA balB in let s := ssys_run s0 l in
  sc_swaps (ssA s) = ∅ -> sc_swaps (ssB s) = ∅ ->
  sgiv (chan s g) (sc_me (chan s (negb g))) - sheld (chan s (negb g)) (sc_me (chan s g)) =
  sgiv (chan s0 g) (sc_me (chan s0 (negb g))) - sheld (chan s0 (negb g)) (sc_me (chan s0 g)).
Proof.
  intros Hab s0 s EA EB. destruct (run_inv l s0 (inv0 a b balA balB Hab)) as (_ & _ & HG). fold s in HG.
  specialize (HG g). unfold Gd in HG.
  assert (E : forall d, sc_swaps (chan s d) = ∅) by (intros [|]; assumption).
  pose proof (wsum_empty (origT (sc_me (chan s g))) isdone s g (E _)).
  pose proof (wsum_empty (origT (sc_me (chan s g))) unanswered s (negb g) (E _)).
  assert (E0 : forall d, sc_swaps (chan s0 d) = ∅) by (intros [|]; reflexivity).
  pose proof (wsum_empty (origT (sc_me (chan s0 g))) isdone s0 g (E0 _)).
  pose proof (wsum_empty (origT (sc_me (chan s0 g))) unanswered s0 (negb g) (E0 _)). lia.
Qed.

Lemma sstep_me s s' y : sstep s s' -> sc_me (chan s' y) = sc_me (chan s y).
Proof.
  intros Hs. destruct Hs; try reflexivity;
    match goal with
    | H : s_apply _ (SBegin _ _ _ _ _ _ _) = Ok _ |- _ => destruct (begin_effect _ _ _ _ _ _ _ _ _ _ H) as (_ & _ & Hm & _)
    | H : s_apply _ (SAnswer _ _) = Ok _ |- _ => destruct (answer_effect _ _ _ _ _ H) as (_ & _ & Hm & _)
    | H : s_apply _ (SUserDone _ _) = Ok _ |- _ => destruct (userdone_effect _ _ _ _ _ H) as (? & _ & _ & _ & _ & Hm & _)
    | H : s_apply _ (SRobotDone _ _) = Ok _ |- _ => destruct (robotdone_effect _ _ _ _ _ H) as (? & _ & _ & _ & Hm & _)
    | H : s_apply _ (SCancel _) = Ok _ |- _ => destruct (cancel_effect _ _ _ _ H) as (? & _ & _ & Hm & _)
    end; rewrite chan_set;
    match goal with |- context [Bool.eqb ?x y] => destruct (Bool.eqb_spec x y) as [<-|] end; auto.
Qed.
Lemma run_me l s y : sc_me (chan (ssys_run s l) y) = sc_me (chan s y).
Proof.
  revert s. induction l as [|x l IH]; intros s; [reflexivity|]. cbn [ssys_run fold_left].
  fold (ssys_run (ssys_step s x) l). rewrite IH. apply sstep_me, ssys_step_sstep.
Qed.

Corollary given_equals_credited a b balA balB l : a <> b ->
  let s := ssys_run (ssys0 a b balA balB) l in
  giv balA b = held balB a -> sc_swaps (ssA s) = ∅ -> sc_swaps (ssB s) = ∅ ->
  sgiv (ssA s) b = sheld (ssB s) a.
Proof.
  intros Hab s H0 EA EB. pose proof (given_matches_held a b balA balB l true Hab EA EB) as H.
  cbn zeta in H. fold s in H. unfold s in H at 2 4. rewrite !run_me in H. cbn in H.
  unfold sgiv, sheld in *. cbn in H. change (chan s true) with (ssA s) in H. change (chan s false) with (ssB s) in H. lia.
Qed.

(* ---- exact amounts ------------------------------------------------------------------------- *)
Theorem userdone_credits c id key c' ev : wfchan c -> s_apply c (SUserDone id key) = Ok (c', ev) ->
  exists r, sc_swaps c !! id = Some r /\ sw_creator r = 0%N /\
    forall u t, val c' u t = val c u t + (if N.eqb (sw_owner r) u && N.eqb (sw_sym r) t then sw_amt r else 0).
Proof.
  intros Hwf Ha. destruct (userdone_effect _ _ _ _ _ Ha) as (r & Hr & Hco & _ & _ & Hme & Hb). exists r.
  pose proof (Hwf _ _ Hr) as Hw. assert (Hc0 : sw_creator r = 0%N).
  { destruct Hw as (_ & _ & _ & Hx). destruct (N.eqb_spec (sw_creator r) 0); [assumption|]. destruct Hx as (Hx & _). contradiction. }
  repeat split; auto. intros u t. rewrite (val_chg _ _ _ u t Hme Hb). rewrite val_userdone by assumption. reflexivity.
Qed.

Theorem cancel_refunds c id c' ev : wfchan c -> s_apply c (SCancel id) = Ok (c', ev) ->
  exists r, sc_swaps c !! id = Some r /\
    forall u t, val c' u t = val c u t +
      (if negb (N.eqb (sw_creator r) 0) && N.eqb (sw_owner r) u && N.eqb (sw_sym r) t then sw_amt r else 0).
Proof.
  intros Hwf Ha. destruct (cancel_effect _ _ _ _ Ha) as (r & Hr & _ & Hme & Hb). exists r. split; [exact Hr|].
  pose proof (Hwf _ _ Hr) as Hw. intros u t. rewrite (val_chg _ _ _ u t Hme Hb).
  destruct (N.eqb_spec (sw_creator r) 0) as [E|E]; cbn [negb andb].
  - rewrite val_cancel_copy by assumption. reflexivity.
  - rewrite val_cancel_orig by assumption. reflexivity.
Qed.

Theorem begin_debits c s id sym grp to amt h c' ev : s_apply c (SBegin s id sym grp to amt h) = Ok (c', ev) ->
  forall u t, val c' u t = val c u t - (if N.eqb s u && N.eqb sym t then amt else 0).
Proof.
  intros Ha u t. destruct (begin_effect _ _ _ _ _ _ _ _ _ _ Ha) as (_ & _ & Hme & Hs & _ & Hsym & Hb).
  rewrite (val_chg _ _ _ u t Hme Hb), (val_begin _ _ _ _ _ _ to) by assumption. lia.
Qed.
