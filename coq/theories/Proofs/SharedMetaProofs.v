(* Proofs about Model/SharedMeta.v *)
From Fnd Require Import Base.Prelude Model.SharedMeta.

(* one field on the contract object (the library): two overlapping metadata operations save each
   other's uncommitted change - whichever finishes last, and also the one that finishes first *)
Theorem shared_object_refuted :
  (* A loads, B loads, B changes and saves, A changes and saves: A's transaction carries B's change *)
  saved_of (m_meta_run [] (fun _ => 0%nat) [1; 2]%N [0; 1; 1; 1; 0; 0]%nat) 0%nat = Some [2; 1]%N /\
  (* A loads, B loads, A changes and saves: the change went into B's object; B then saves both *)
  saved_of (m_meta_run [] (fun _ => 0%nat) [1; 2]%N [0; 1; 0; 0; 1; 1]%nat) 1%nat = Some [1; 2]%N /\
  (* alone, each saves only its own change *)
  saved_of (m_meta_run [] (fun _ => 0%nat) [1; 2]%N [0; 0; 0]%nat) 0%nat = Some [1]%N.
Proof. repeat split; vm_compute; reflexivity. Qed.

(* a field per invocation: every schedule of two operations gives each its solo result *)
Definition all_schedules2 : list (list nat) :=
  let fix ins (a : nat) (l : list nat) : list (list nat) :=
      match l with [] => [[a]] | x :: r => (a :: x :: r) :: List.map (cons x) (ins a r) end in
  let fix merges (xs ys : list nat) (fuel : nat) : list (list nat) :=
      match fuel with O => [[]] | S f =>
        match xs, ys with
        | [], _ => [ys] | _, [] => [xs]
        | x :: xr, y :: yr => List.map (cons x) (merges xr ys f) ++ List.map (cons y) (merges xs yr f)
        end end in
  merges [0; 0; 0]%nat [1; 1; 1]%nat 6%nat.

Theorem own_object_isolated_2 :
  forallb (fun sch => let s := m_meta_run [7]%N (fun i => i) [1; 2]%N sch in
                      bool_decide (saved_of s 0%nat = Some [7; 1]%N) && bool_decide (saved_of s 1%nat = Some [7; 2]%N)) all_schedules2 = true
  /\ length all_schedules2 = 20%nat.
Proof. split; vm_compute; reflexivity. Qed.
