(* Proofs about Model/Index.v: the inverse entries always mirror the primaries. *)
From Fnd Require Import Base.Prelude Model.Balance Model.Index Proofs.BalanceProofs.
Local Open Scope Z_scope.

Lemma bput_lookup (m : bals) k v k' :
  bput m k v !! k' = if decide (k' = k) then (if v =? 0 then None else Some v) else m !! k'.
Proof.
  unfold bput. destruct (Z.eqb_spec v 0); destruct (decide (k' = k)) as [->|Hne].
  - apply lookup_delete.
  - apply lookup_delete_ne. congruence.
  - apply lookup_insert.
  - apply lookup_insert_ne. congruence.
Qed.

(* every inverse entry has a token component and equals the primary entry *)
Definition InvOK (s : istate) : Prop :=
  forall kd tk a v, inv s !! (kd, tk, a) = Some v -> tk <> 0%N /\ prim s !! (kd, a, tk) = Some v.
(* no zero is ever stored *)
Definition NZ (s : istate) : Prop := forall k, prim s !! k <> Some 0.
(* every tokened primary of kind kd has its inverse entry *)
Definition Complete (kd : N) (s : istate) : Prop :=
  forall a tk v, tk <> 0%N -> prim s !! (kd, a, tk) = Some v -> inv s !! (kd, tk, a) = Some v.

Lemma inv_key_inj k k' : inv_key k = inv_key k' -> k = k'.
Proof. destruct k as [[a b] c], k' as [[a' b'] c']. unfold inv_key. cbn. congruence. Qed.

Lemma iwrite_InvOK s k v : InvOK s -> InvOK (iwrite s k v).
Proof.
  intros H kd tk a x. unfold iwrite. cbn [inv prim]. destruct k as [[kd0 a0] tk0]. unfold ktoken, inv_key. cbn [fst snd].
  destruct (N.eqb_spec tk0 0) as [->|Htk].
  - intros Hi. destruct (H _ _ _ _ Hi) as [H1 H2]. split; [exact H1|].
    rewrite bput_lookup. rewrite decide_False by congruence. exact H2.
  - rewrite !bput_lookup. destruct (decide ((kd, tk, a) = (kd0, tk0, a0))) as [E|E].
    + injection E as -> -> ->. rewrite decide_True by reflexivity.
      destruct (v =? 0); [discriminate|]. intros [= <-]. split; [exact Htk|reflexivity].
    + intros Hi. destruct (H _ _ _ _ Hi) as [H1 H2]. split; [exact H1|].
      rewrite decide_False by congruence. exact H2.
Qed.

Lemma iwrite_NZ s k v : NZ s -> NZ (iwrite s k v).
Proof.
  intros H k'. unfold iwrite. cbn [prim]. rewrite bput_lookup.
  destruct (decide (k' = k)); [|apply H]. destruct (Z.eqb_spec v 0); congruence.
Qed.

Lemma iwrite_Complete kd s k v : Complete kd s -> Complete kd (iwrite s k v).
Proof.
  intros H a tk x Htk. unfold iwrite. cbn [inv prim]. destruct k as [[kd0 a0] tk0]. unfold ktoken, inv_key. cbn [fst snd].
  rewrite bput_lookup. destruct (decide ((kd, a, tk) = (kd0, a0, tk0))) as [E|E].
  - injection E as -> -> ->. destruct (N.eqb_spec tk0 0) as [|_]; [contradiction|].
    rewrite bput_lookup, decide_True by reflexivity. tauto.
  - intros Hp. specialize (H _ _ _ Htk Hp). destruct (N.eqb_spec tk0 0); [exact H|].
    rewrite bput_lookup, decide_False by congruence. exact H.
Qed.

Definition Inv3 (kds : N -> Prop) (s : istate) : Prop :=
  InvOK s /\ NZ s /\ forall kd, kds kd -> Complete kd s.

Lemma iwrite_Inv3 kds s k v : Inv3 kds s -> Inv3 kds (iwrite s k v).
Proof.
  intros (H1 & H2 & H3). split; [apply iwrite_InvOK, H1|]. split; [apply iwrite_NZ, H2|].
  intros kd Hk. apply iwrite_Complete, H3, Hk.
Qed.

Lemma prim_step_Inv3 kds rd acc p acc' : Inv3 kds acc -> prim_step rd acc p = Ok acc' -> Inv3 kds acc'.
Proof.
  intros H. destruct p as [k v|k a|k a]; cbn [prim_step].
  - intros [= <-]. apply iwrite_Inv3, H.
  - destruct (a <? 0); [discriminate|]. intros [= <-]. apply iwrite_Inv3, H.
  - destruct (a <? 0); [discriminate|]. destruct (_ <? a); [discriminate|]. intros [= <-]. apply iwrite_Inv3, H.
Qed.

Lemma run_prims_Inv3 kds m snap ps : forall acc, Inv3 kds acc -> Inv3 kds (fst (run_prims m snap acc ps)).
Proof.
  induction ps as [|p ps IH]; intros acc H; [exact H|]. cbn [run_prims].
  destruct (prim_step _ acc p) as [acc'|e] eqn:E; [|exact H].
  apply IH. eapply prim_step_Inv3; eassumption.
Qed.

Lemma run_ops_Inv3 kds m snap os : forall acc, Inv3 kds acc -> Inv3 kds (fst (run_ops m snap acc os)).
Proof.
  induction os as [|o os IH]; intros acc H; [exact H|]. cbn [run_ops].
  pose proof (run_prims_Inv3 kds m snap (prims o) acc H) as H1.
  destruct (run_prims m snap acc (prims o)) as [acc' e]. specialize (IH acc' H1).
  destruct (run_ops m snap acc' os). exact IH.
Qed.

(* characterisation of the inverse map after CreateIndex *)
Lemma create_index_inv s kd k :
  InvOK s ->
  inv (create_index s kd) !! k =
  match prim s !! inv_key k with
  | Some v => if N.eqb (kkind k) kd && negb (N.eqb (snd (fst k)) 0) then Some v else inv s !! k
  | None => inv s !! k
  end.
Proof.
  intros HI. unfold create_index. cbn [inv].
  revert k. set (f := fun (k : N * N * N) (v : Z) (acc : bals) =>
     if N.eqb (kkind k) kd && negb (N.eqb (ktoken k) 0) then <[inv_key k := v]> acc else acc).
  apply (map_fold_ind (fun r m => forall k, r !! k =
     match m !! inv_key k with
     | Some v => if N.eqb (kkind k) kd && negb (N.eqb (snd (fst k)) 0) then Some v else inv s !! k
     | None => inv s !! k end)).
  - intros k. rewrite lookup_empty. reflexivity.
  - intros i x m r Hi IH k. unfold f.
    assert (Hik : inv_key (inv_key k) = k) by (destruct k as [[a b] c]; reflexivity).
    destruct (decide (inv_key k = i)) as [E|E].
    + subst i. rewrite lookup_insert.
      assert (kkind (inv_key k) = kkind k) as -> by (destruct k as [[a b] c]; reflexivity).
      assert (ktoken (inv_key k) = snd (fst k)) as -> by (destruct k as [[a b] c]; reflexivity).
      destruct (_ && _) eqn:Eb.
      * rewrite Hik. apply lookup_insert.
      * rewrite IH, Hi. reflexivity.
    + rewrite lookup_insert_ne by congruence.
      destruct (_ && _).
      * rewrite lookup_insert_ne; [apply IH|]. intros E'. apply E. rewrite <- E'.
        destruct i as [[a b] c]; reflexivity.
      * apply IH.
Qed.

Lemma create_index_prim s kd : prim (create_index s kd) = prim s.
Proof. reflexivity. Qed.

Lemma create_index_Inv3 (kds : N -> Prop) s kd :
  InvOK s -> NZ s -> (forall kd', kds kd' -> Complete kd' s) ->
  Inv3 (fun x => kds x \/ x = kd) (create_index s kd).
Proof.
  intros H1 H2 H3. split; [|split].
  - intros kd' tk a v. rewrite (create_index_inv s kd _ H1). cbn [create_index prim].
    unfold inv_key, kkind. cbn [fst snd].
    destruct (prim s !! (kd', a, tk)) as [x|] eqn:Ep.
    + destruct (N.eqb_spec kd' kd) as [->|]; cbn [andb].
      * destruct (N.eqb_spec tk 0) as [->|Htk]; cbn [negb].
        -- intros Hi. destruct (H1 _ _ _ _ Hi) as [Hc _]. congruence.
        -- intros [= <-]. split; [exact Htk|reflexivity].
      * intros Hi. destruct (H1 _ _ _ _ Hi) as [Hc Hp]. split; [exact Hc|]. congruence.
    + intros Hi. destruct (H1 _ _ _ _ Hi) as [Hc Hp]. congruence.
  - exact H2.
  - intros kd' Hk a tk v Htk Hp. rewrite (create_index_inv s kd _ H1).
    cbn [create_index prim] in Hp. unfold inv_key, kkind. cbn [fst snd]. rewrite Hp.
    destruct (N.eqb_spec kd' kd) as [->|Hne]; cbn [andb].
    + destruct (N.eqb_spec tk 0); [contradiction|reflexivity].
    + destruct Hk as [Hk|Hk]; [|contradiction]. apply (H3 _ Hk); assumption.
Qed.

Definition is_legacy (x : istep) : Prop := match x with SLegacy _ _ => True | _ => False end.
Definition no_legacy (x : istep) : Prop := match x with SLegacy _ _ => False | _ => True end.

Lemma step_Inv3 (kds : N -> Prop) s x : no_legacy x -> Inv3 kds s ->
  Inv3 (fun k => kds k \/ match x with SCreateIndex kd => k = kd | _ => False end) (fst (i_step s x)).
Proof.
  intros Hn H. assert (Hw : forall s', Inv3 kds s' -> Inv3 (fun k => kds k \/ False) s').
  { intros s' (A & B & C). split; [exact A|]. split; [exact B|]. intros kd [Hk|[]]. apply C, Hk. }
  destruct x as [m c os|kd|k v|kd tk|kd a|kd tk addrs]; cbn [i_step].
  - pose proof (run_ops_Inv3 kds m s os s H) as H1. destruct (run_ops m s s os) as [s' es].
    cbn [fst] in *. apply Hw. destruct c; assumption.
  - destruct H as (A & B & C). apply create_index_Inv3; assumption.
  - destruct Hn.
  - apply Hw, H.
  - apply Hw, H.
  - apply Hw, H.
Qed.

Lemma run_Inv3 h : forall (kds : N -> Prop) s, Forall no_legacy h -> Inv3 kds s ->
  exists kds' : N -> Prop, (forall k, kds k -> kds' k) /\
    (forall kd, In (SCreateIndex kd) h -> kds' kd) /\ Inv3 kds' (fst (i_run s h)).
Proof.
  induction h as [|x h IH]; intros kds s Hf H.
  - exists kds. split; [auto|]. split; [intros kd []|exact H].
  - apply Forall_cons in Hf as [Hx Hf]. cbn [i_run].
    pose proof (step_Inv3 kds s x Hx H) as H1. destruct (i_step s x) as [s' o]. cbn [fst] in H1.
    destruct (IH _ s' Hf H1) as (kds' & K1 & K2 & K3).
    destruct (i_run s' h) as [s'' os]. exists kds'. split; [intros k Hk; apply K1; left; exact Hk|].
    split; [|exact K3]. intros kd [->|Hin]; [apply K1; right; reflexivity|apply K2, Hin].
Qed.

Lemma legacy_Inv3 l : Forall is_legacy l -> forall s, inv s = ∅ -> NZ s ->
  inv (fst (i_run s l)) = ∅ /\ NZ (fst (i_run s l)).
Proof.
  induction 1 as [|x l Hx _ IH]; intros s Hi Hz; [split; assumption|].
  destruct x; try contradiction. cbn [i_run i_step].
  specialize (IH (IS (bput (prim s) k v) (inv s) (flags s)) Hi).
  destruct (i_run _ l) as [s' os]. apply IH. intros k'. cbn [prim]. rewrite bput_lookup.
  destruct (decide (k' = k)); [|apply Hz]. destruct (Z.eqb_spec v 0); congruence.
Qed.

Lemma i_run_app s h1 h2 : fst (i_run s (h1 ++ h2)) = fst (i_run (fst (i_run s h1)) h2).
Proof.
  revert s. induction h1 as [|x h1 IH]; intros s; cbn [app i_run]; [reflexivity|].
  destruct (i_step s x) as [s' o]. specialize (IH s').
  destruct (i_run s' (h1 ++ h2)), (i_run s' h1). cbn [fst] in *. exact IH.
Qed.

(* listing the owners = the inverse entries of (kind, token) *)
Lemma owners_spec s kd tk a v : In (a, v) (owners s kd tk) <-> inv s !! (kd, tk, a) = Some v.
Proof.
  unfold owners. rewrite <- elem_of_list_In, elem_of_list_omap. split.
  - intros [[[[k1 k2] k3] x] [Hin Hs]]. cbn [fst snd] in Hs.
    destruct (N.eqb_spec k1 kd), (N.eqb_spec k2 tk); cbn [andb] in Hs; try discriminate.
    injection Hs as <- <-. subst. apply elem_of_map_to_list in Hin. exact Hin.
  - intros H. exists ((kd, tk, a), v). split; [apply elem_of_map_to_list, H|].
    cbn [fst snd]. rewrite !N.eqb_refl. reflexivity.
Qed.

Lemma agree_of_Inv3 kds s kd tk a v : Inv3 kds s -> kds kd -> tk <> 0%N ->
  (In (a, v) (owners s kd tk) <-> (bget (prim s) (kd, a, tk) = v /\ v <> 0)).
Proof.
  intros (H1 & H2 & H3) Hk Htk. rewrite owners_spec. split.
  - intros Hi. destruct (H1 _ _ _ _ Hi) as [_ Hp]. unfold bget. rewrite Hp. cbn. split; [reflexivity|].
    intros ->. apply (H2 _ Hp).
  - intros [Hb Hv]. apply (H3 _ Hk); [exact Htk|]. unfold bget in Hb.
    destruct (prim s !! (kd, a, tk)) as [x|]; cbn in Hb; congruence.
Qed.

(* MAIN 1: no legacy data.  After any history of transactions (cached or raw, committed or
   discarded), index builds and queries, listing the owners of a token returns exactly the
   addresses with a non-zero balance, with the amounts a direct read returns. *)
Theorem index_agrees h : Forall no_legacy h ->
  forall kd tk a v, tk <> 0%N ->
  let s := fst (i_run i_init h) in
  In (a, v) (owners s kd tk) <-> (bget (prim s) (kd, a, tk) = v /\ v <> 0).
Proof.
  intros Hf kd tk a v Htk.
  assert (H0 : Inv3 (fun _ => True) i_init).
  { split; [|split].
    - intros ? ? ? ? Hc. cbn in Hc. rewrite lookup_empty in Hc. discriminate.
    - intros k. cbn. rewrite lookup_empty. discriminate.
    - intros ? _ ? ? ? _ Hc. cbn in Hc. rewrite lookup_empty in Hc. discriminate. }
  destruct (run_Inv3 h _ i_init Hf H0) as (kds' & K1 & _ & K3).
  apply (agree_of_Inv3 kds'); auto.
Qed.

(* MAIN 2: un-indexed legacy data, then any history containing createIndex for the kind:
   from that moment on the listing agrees with the balances. *)
Theorem index_agrees_after_create l h1 kd h2 : Forall is_legacy l -> Forall no_legacy h1 -> Forall no_legacy h2 ->
  forall tk a v, tk <> 0%N ->
  let s := fst (i_run i_init (l ++ h1 ++ SCreateIndex kd :: h2)) in
  In (a, v) (owners s kd tk) <-> (bget (prim s) (kd, a, tk) = v /\ v <> 0).
Proof.
  intros Hl H1 H2 tk a v Htk. cbn zeta. rewrite i_run_app.
  destruct (legacy_Inv3 l Hl i_init eq_refl) as [Li Lz].
  { intros k. cbn. rewrite lookup_empty. discriminate. }
  set (s0 := fst (i_run i_init l)) in *.
  assert (H0 : Inv3 (fun _ => False) s0).
  { split; [|split; [exact Lz|intros ? []]]. intros ? ? ? ? Hc. rewrite Li, lookup_empty in Hc. discriminate. }
  assert (Hf : Forall no_legacy (h1 ++ SCreateIndex kd :: h2)).
  { apply Forall_app. split; [exact H1|]. apply Forall_cons. split; [exact I|exact H2]. }
  destruct (run_Inv3 _ _ s0 Hf H0) as (kds' & _ & K2 & K3).
  apply (agree_of_Inv3 kds'); auto. apply K2. apply in_app_iff. right. left. reflexivity.
Qed.

(* building the index changes no balance *)
Theorem create_index_preserves_primaries s kd : prim (fst (i_step s (SCreateIndex kd))) = prim s.
Proof. reflexivity. Qed.

(* a discarded transaction changes nothing *)
Theorem discarded_tx_no_effect s m os : fst (i_step s (STx m false os)) = s.
Proof. cbn [i_step]. destruct (run_ops m s s os). reflexivity. Qed.
