(* Proofs about Model/Cache.v *)
From Fnd Require Import Base.Prelude Model.Cache.

(* ---- simulation relation between the cache model and the overlay spec ---- *)
Definition br_ok (b : bcs) : Prop :=
  forall k v, br b !! k = Some v -> v = led_get (led b) k.

Definition Rel (m : mst) (s : sst) : Prop :=
  sl s = led (fst m) /\ sb s = bw (fst m) /\ stx s = snd m /\ br_ok (fst m).

Lemma Rel_init l : Rel (m_init l) (s_init l).
Proof. repeat split. intros k v H. cbn in H. rewrite lookup_empty in H. discriminate. Qed.

Lemma b_get_spec b k b' v :
  br_ok b -> b_get b k = (b', v) ->
  led b' = led b /\ bw b' = bw b /\ br_ok b' /\
  v = match bw b !! k with Some e => wval e | None => led_get (led b) k end.
Proof.
  intros Hok. unfold b_get.
  destruct (bw b !! k) as [e|] eqn:Ew.
  { intros [= <- <-]. auto. }
  destruct (br b !! k) as [v0|] eqn:Er.
  { intros [= <- <-]. repeat split; auto. }
  intros [= <- <-]. cbn. repeat split; auto.
  intros k' v'. cbn. destruct (decide (k' = k)) as [->|Hne].
  - rewrite lookup_insert. intros [= <-]. reflexivity.
  - rewrite lookup_insert_ne by congruence. apply Hok.
Qed.

Lemma step_refines m s o :
  Rel m s ->
  snd (m_step m o) = snd (s_step s o) /\ Rel (fst (m_step m o)) (fst (s_step s o)).
Proof.
  destruct m as [b ot]. destruct s as [l sbb st]. intros (Hl & Hb & Ht & Hok).
  cbn in Hl, Hb, Ht, Hok. subst l sbb st.
  destruct o as [k|k v|k|k|k v|k| | |]; cbn [m_step s_step stx sl sb].
  - (* CGet *)
    destruct ot as [t|].
    + unfold t_get, s_view. cbn [stx]. destruct (t !! k) as [e|] eqn:Et.
      * cbn. split; [reflexivity|]. repeat split; auto.
      * destruct (b_get b k) as [b' v] eqn:Eg.
        destruct (b_get_spec _ _ _ _ Hok Eg) as (H1 & H2 & H3 & H4).
        cbn. split.
        { unfold s_view_b. cbn [sb sl]. rewrite H4. reflexivity. }
        repeat split; cbn; auto.
    + destruct (b_get b k) as [b' v] eqn:Eg.
      destruct (b_get_spec _ _ _ _ Hok Eg) as (H1 & H2 & H3 & H4).
      cbn. split.
      { unfold s_view, s_view_b. cbn [stx sb sl]. rewrite H4. reflexivity. }
      repeat split; cbn; auto.
  - destruct ot as [t|]; cbn; repeat split; auto.
  - destruct ot as [t|]; cbn; repeat split; auto.
  - (* CBGet *)
    destruct (b_get b k) as [b' v] eqn:Eg.
    destruct (b_get_spec _ _ _ _ Hok Eg) as (H1 & H2 & H3 & H4).
    cbn [fst snd]. split.
    { unfold s_view_b; cbn [sb sl]; rewrite H4; reflexivity. }
    repeat split; cbn; auto.
  - destruct ot as [t|]; cbn; repeat split; auto.
  - destruct ot as [t|]; cbn; repeat split; auto.
  - cbn; repeat split; auto.
  - destruct ot as [t|]; cbn; repeat split; auto.
  - cbn; repeat split; auto.
Qed.

Lemma run_refines h : forall m s,
  Rel m s ->
  snd (m_run m h) = snd (s_run s h) /\ Rel (fst (m_run m h)) (fst (s_run s h)).
Proof.
  induction h as [|o h IH]; intros m s HR; cbn [m_run s_run].
  - split; [reflexivity|exact HR].
  - destruct (step_refines m s o HR) as [Ho HR'].
    destruct (m_step m o) as [m' x]. destruct (s_step s o) as [s' y]. cbn in Ho, HR'. subst y.
    destruct (IH m' s' HR') as [Ho2 HR2].
    destruct (m_run m' h) as [m'' xs]. destruct (s_run s' h) as [s'' ys].
    cbn in *. subst ys. split; [reflexivity|exact HR2].
Qed.

(* every Get/commit output of the cache equals the overlay specification's *)
Theorem cache_refines_map l h : snd (m_run (m_init l) h) = snd (s_run (s_init l) h).
Proof. apply run_refines, Rel_init. Qed.

(* ---- the batch commit is exact ------------------------------------------- *)
Definition final_at (l : ledger) (w : gmap key welem) (k : key) : option val :=
  match w !! k with
  | Some e => if wdel e then None else match wval e with [] => None | v => Some v end
  | None => l !! k
  end.

Lemma led_put_lookup l k v k' :
  led_put l k v !! k' =
  if decide (k' = k) then match v with [] => None | _ => Some v end else l !! k'.
Proof.
  unfold led_put. destruct v as [|x v]; destruct (decide (k' = k)) as [->|Hne].
  - apply lookup_delete.
  - apply lookup_delete_ne. congruence.
  - apply lookup_insert.
  - apply lookup_insert_ne. congruence.
Qed.

Lemma b_commit_lookup l w k : map_fold apply_w l w !! k = final_at l w k.
Proof.
  revert k. apply (map_fold_ind (fun r m => forall k, r !! k = final_at l m k)).
  - intros k. unfold final_at. rewrite lookup_empty. reflexivity.
  - intros i e m r Hi IH k. unfold final_at, apply_w.
    destruct (decide (k = i)) as [->|Hne].
    + rewrite lookup_insert. destruct (wdel e).
      * unfold led_del. apply lookup_delete.
      * rewrite led_put_lookup. rewrite decide_True by reflexivity. destruct (wval e); reflexivity.
    + rewrite lookup_insert_ne by congruence. destruct (wdel e).
      * unfold led_del. rewrite lookup_delete_ne by congruence. apply IH.
      * rewrite led_put_lookup. rewrite decide_False by exact Hne. apply IH.
Qed.

(* After the batch commit the ledger holds, for every key, exactly the final value or
   deletion written by committed transactions (or batch-level writes), and the old
   value for every key nobody wrote. *)
Theorem commit_exact l h k :
  let '(s, _) := s_run (s_init l) h in
  let '(_, led', _) := m_behaviour l h in
  led' !! k = s_final_at s k.
Proof.
  unfold m_behaviour.
  destruct (run_refines h (m_init l) (s_init l) (Rel_init l)) as [_ HR].
  destruct (s_run (s_init l) h) as [s ys]. destruct (m_run (m_init l) h) as [[b ot] xs].
  destruct HR as (Hl & Hb & _ & _). cbn in Hl, Hb.
  unfold b_commit. rewrite b_commit_lookup. unfold final_at, s_final_at.
  rewrite Hl, Hb. reflexivity.
Qed.

Corollary commit_untouched l h k :
  let '(s, _) := s_run (s_init l) h in
  let '(_, led', _) := m_behaviour l h in
  sb s !! k = None -> led' !! k = l !! k.
Proof.
  pose proof (commit_exact l h k) as H.
  assert (Hsl : forall h s, sl (fst (s_run s h)) = sl s).
  { clear. induction h as [|o h IH]; intros s; [reflexivity|].
    cbn [s_run]. destruct (s_step s o) as [s' y] eqn:E.
    specialize (IH s'). destruct (s_run s' h) as [s'' ys]. cbn in *. rewrite IH.
    destruct o; unfold s_step in E; destruct (stx s); inversion E; reflexivity. }
  specialize (Hsl h (s_init l)).
  destruct (s_run (s_init l) h) as [s ys]. destruct (m_behaviour l h) as [[o led'] c].
  intros Hn. rewrite H. unfold s_final_at. rewrite Hn. cbn in Hsl. rewrite Hsl. reflexivity.
Qed.

(* ---- the writes list: exactly the tx's final write per key, strictly sorted ---- *)

Lemma wlist_perm (m : gmap key welem) :
  Permutation (wlist m) ((fun p => (fst p, wval (snd p), wdel (snd p))) <$> map_to_list m).
Proof. unfold wlist. apply merge_sort_Permutation. Qed.

Lemma wlist_elem (m : gmap key welem) k v d :
  In (k, v, d) (wlist m) <-> m !! k = Some (WE v d).
Proof.
  rewrite <- elem_of_list_In. rewrite (wlist_perm m). rewrite elem_of_list_fmap.
  split.
  - intros [[k' e] [Heq Hin]]. cbn in Heq. inversion Heq; subst.
    apply elem_of_map_to_list in Hin. destruct e; exact Hin.
  - intros H. exists (k, WE v d). split; [reflexivity|]. apply elem_of_map_to_list. exact H.
Qed.

Lemma wlist_keys_nodup (m : gmap key welem) : NoDup (wkey <$> wlist m).
Proof.
  rewrite (wlist_perm m). rewrite <- list_fmap_compose.
  apply NoDup_fst_map_to_list.
Qed.

Lemma wlist_sorted (m : gmap key welem) : Sorted wle (wlist m).
Proof.
  unfold wlist. assert (Total wle) by (intros a b; unfold wle; lia).
  apply (Sorted_merge_sort wle).
Qed.

(* every tx commit returns exactly the transaction's final write per key *)
Theorem tx_writes_exact b t k v d :
  In (k, v, d) (snd (t_commit b t)) <-> t !! k = Some (WE v d).
Proof. cbn. apply wlist_elem. Qed.

Theorem tx_writes_sorted_nodup b t :
  Sorted wle (snd (t_commit b t)) /\ NoDup (wkey <$> snd (t_commit b t)).
Proof. cbn. split; [apply wlist_sorted|apply wlist_keys_nodup]. Qed.

(* the underlying stub receives exactly one call per key of the batch write cache *)
Theorem commit_calls_exact b k v d :
  In (k, v, d) (b_commit_calls b) <-> bw b !! k = Some (WE v d).
Proof. apply wlist_elem. Qed.

Theorem commit_calls_once b : NoDup (wkey <$> b_commit_calls b).
Proof. apply wlist_keys_nodup. Qed.

(* ---- a discarded transaction is invisible --------------------------------- *)
Definition txop (o : cop) : Prop :=
  match o with CGet _ | CPut _ _ | CDel _ => True | _ => False end.

Lemma s_run_app s h1 h2 :
  s_run s (h1 ++ h2) =
  let '(s1, o1) := s_run s h1 in let '(s2, o2) := s_run s1 h2 in (s2, o1 ++ o2).
Proof.
  revert s. induction h1 as [|o h1 IH]; intros s; cbn [s_run app].
  - destruct (s_run s h2). reflexivity.
  - destruct (s_step s o) as [s' x]. rewrite IH.
    destruct (s_run s' h1) as [s1 o1]. destruct (s_run s1 h2) as [s2 o2]. reflexivity.
Qed.

Lemma s_txops_frame body : Forall txop body -> forall s t,
  stx s = Some t ->
  exists t', fst (s_run s body) = SST (sl s) (sb s) (Some t') /\
             length (snd (s_run s body)) = length body.
Proof.
  induction 1 as [|o body Ho _ IH]; intros s t Ht; cbn [s_run].
  - exists t. destruct s; cbn in *; subst; split; reflexivity.
  - assert (exists s' x t1, s_step s o = (s', x) /\ stx s' = Some t1 /\ sl s' = sl s /\ sb s' = sb s)
      as (s' & x & t1 & E & E1 & E2 & E3).
    { destruct o; try contradiction; unfold s_step; rewrite ?Ht; cbn; eauto 10. }
    rewrite E. destruct (IH s' t1 E1) as [t' [H1 H2]]. destruct (s_run s' body) as [s'' ys].
    exists t'. cbn in *. rewrite H1, E2, E3. split; [reflexivity|congruence].
Qed.

Lemma s_step_begin s : s_step s CBegin = (SST (sl s) (sb s) (Some ∅), ONone).
Proof. unfold s_step. destruct (stx s); reflexivity. Qed.
Lemma s_step_discard s : s_step s CDiscard = (SST (sl s) (sb s) None, ONone).
Proof. unfold s_step. destruct (stx s); reflexivity. Qed.

(* On the specification: dropping the body of a discarded transaction changes neither
   the outputs of the other operations nor the final state. *)
Lemma s_discarded_invisible s h1 body h2 : Forall txop body ->
  let '(sa, oa) := s_run s (h1 ++ CBegin :: body ++ CDiscard :: h2) in
  let '(sb', ob) := s_run s (h1 ++ CBegin :: CDiscard :: h2) in
  sa = sb' /\ exists mid, length mid = length body /\
    oa = (firstn (length h1) ob) ++ ONone :: mid ++ skipn (S (length h1)) ob.
Proof.
  intros Hb. rewrite !s_run_app.
  assert (Hlen : forall h s, length (snd (s_run s h)) = length h).
  { clear. induction h as [|o h IH]; intros s; [reflexivity|]. cbn [s_run].
    destruct (s_step s o) as [s' x]. specialize (IH s'). destruct (s_run s' h). cbn in *. lia. }
  pose proof (Hlen h1 s) as Hl1.
  destruct (s_run s h1) as [s1 o1]. cbn in Hl1. cbn [s_run].
  rewrite !s_step_begin.
  set (s1b := SST (sl s1) (sb s1) (Some ∅)).
  rewrite s_run_app.
  destruct (s_txops_frame body Hb s1b ∅ eq_refl) as [t' [H1 H2]].
  destruct (s_run s1b body) as [s2 o2]. cbn in H1, H2. subst s2. cbn [s_run].
  rewrite !s_step_discard. cbn [stx sl sb s1b].
  destruct (s_run {| sl := sl s1; sb := sb s1; stx := None |} h2) as [s3 o3].
  split; [reflexivity|]. exists o2. split; [exact H2|].
  rewrite <- Hl1. rewrite firstn_app, Nat.sub_diag, firstn_all. cbn [firstn]. rewrite app_nil_r.
  replace (S (length o1)) with (length (o1 ++ [ONone])) by (rewrite app_length; cbn; lia).
  replace (o1 ++ ONone :: ONone :: o3) with ((o1 ++ [ONone]) ++ ONone :: o3)
    by (rewrite <- app_assoc; reflexivity).
  rewrite skipn_app, Nat.sub_diag, skipn_all. cbn [skipn app].
  reflexivity.
Qed.

(* transported to the cache model: same ledger after commit, same calls, same outputs
   for everything outside the discarded transaction *)
Theorem discarded_invisible l h1 body h2 : Forall txop body ->
  let '(oa, la, ca) := m_behaviour l (h1 ++ CBegin :: body ++ CDiscard :: h2) in
  let '(ob, lb, cb) := m_behaviour l (h1 ++ CBegin :: CDiscard :: h2) in
  la = lb /\ ca = cb /\ exists mid, length mid = length body /\
    oa = (firstn (length h1) ob) ++ ONone :: mid ++ skipn (S (length h1)) ob.
Proof.
  intros Hb. unfold m_behaviour.
  pose proof (s_discarded_invisible (s_init l) h1 body h2 Hb) as HS.
  destruct (run_refines (h1 ++ CBegin :: body ++ CDiscard :: h2) _ _ (Rel_init l)) as [Ea Ra].
  destruct (run_refines (h1 ++ CBegin :: CDiscard :: h2) _ _ (Rel_init l)) as [Eb Rb].
  destruct (s_run (s_init l) (h1 ++ CBegin :: body ++ CDiscard :: h2)) as [sa oa].
  destruct (s_run (s_init l) (h1 ++ CBegin :: CDiscard :: h2)) as [sb' ob].
  destruct (m_run (m_init l) (h1 ++ CBegin :: body ++ CDiscard :: h2)) as [[ba ta] xa].
  destruct (m_run (m_init l) (h1 ++ CBegin :: CDiscard :: h2)) as [[bb tb] xb].
  cbn in Ea, Eb. subst xa xb.
  destruct HS as [-> HS]. destruct Ra as (Ra1 & Ra2 & _). destruct Rb as (Rb1 & Rb2 & _).
  cbn in Ra1, Ra2, Rb1, Rb2.
  unfold b_commit, b_commit_calls. rewrite <- Ra1, <- Ra2, <- Rb1, <- Rb2.
  split; [reflexivity|]. split; [reflexivity|]. exact HS.
Qed.
