(* Proofs about Model/Auth.v *)
From Fnd Require Import Base.Prelude Model.Auth.

(* a signature is genuine for key ki over msg: made with ki's secret, for ki's type, over msg *)
Definition genuine (ki : option keyinfo) (msg : list N) (sg : sigv) : Prop :=
  match ki, sg with
  | Some k, SigBy sk kt m => sk = k_id k /\ kt = k_type k /\ m = msg
  | _, _ => False
  end.
Definition genuineb (ki : option keyinfo) (msg : list N) (sg : sigv) : bool :=
  match ki, sg with
  | Some k, SigBy sk kt m => N.eqb sk (k_id k) && N.eqb kt (k_type k) && bool_decide (m = msg)
  | _, _ => false
  end.
Lemma genuineb_spec ki msg sg : genuineb ki msg sg = true <-> genuine ki msg sg.
Proof.
  destruct ki as [k|], sg as [sk kt m|]; cbn; try (split; [discriminate|tauto]).
  rewrite !andb_true_iff, !N.eqb_eq, bool_decide_eq_true. tauto.
Qed.

(* number of positions holding a non-blank genuine signature *)
Fixpoint count_genuine (kis : list (option keyinfo)) (sigargs : list (list N)) (sigs : list sigv) (msg : list N) : nat :=
  match kis, sigargs, sigs with
  | k :: kr, sa :: sr, sg :: gr =>
    (if match sa with [] => false | _ => genuineb k msg sg end then 1 else 0) + count_genuine kr sr gr msg
  | _, _, _ => 0
  end.

Lemma sig_valid_genuine ki t msg sg : sig_valid ki t msg sg = true -> genuineb (Some ki) msg sg = true.
Proof.
  destruct sg as [sk kt m|]; cbn; [|discriminate]. rewrite !andb_true_iff. tauto.
Qed.

Lemma validate_count kis : forall types sigargs sigs msg c,
  validate kis types sigargs sigs msg = Ok c -> (c <= count_genuine kis sigargs sigs msg)%nat.
Proof.
  induction kis as [|k kr IH]; intros types sigargs sigs msg c; cbn [validate count_genuine].
  - intros [= <-]. lia.
  - destruct types as [|t tr]; [discriminate|]. destruct sigargs as [|sa sr]; [discriminate|].
    destruct sigs as [|sg gr]; [discriminate|].
    destruct sa as [|x sa'].
    + intros H. apply IH in H. lia.
    + destruct k as [ki|]; [|discriminate]. destruct (sig_valid ki t msg sg) eqn:Ev; [|discriminate].
      destruct (validate kr tr sr gr msg) as [c'|] eqn:Ec; cbn [rbind]; [|discriminate].
      intros [= <-]. apply IH in Ec. rewrite (sig_valid_genuine _ _ _ _ Ev). lia.
Qed.

(* every non-blank signature position was verified *)
Lemma validate_all_nonblank kis : forall types sigargs sigs msg c,
  validate kis types sigargs sigs msg = Ok c ->
  forall j sa, nth_error sigargs j = Some sa -> (j < length kis)%nat -> sa <> [] ->
  exists k sg, nth_error kis j = Some k /\ nth_error sigs j = Some sg /\ genuine k msg sg.
Proof.
  induction kis as [|k kr IH]; intros types sigargs sigs msg c; cbn [validate].
  - intros _ j sa _ Hj. cbn in Hj. lia.
  - destruct types as [|t tr]; [discriminate|]. destruct sigargs as [|sa0 sr]; [discriminate|].
    destruct sigs as [|sg gr]; [discriminate|].
    intros Hv j sa Hn Hj Hne. destruct j as [|j]; cbn in Hn.
    + injection Hn as ->. destruct sa as [|x sa']; [congruence|].
      destruct k as [ki|]; [|discriminate]. destruct (sig_valid ki t msg sg) eqn:Ev; [|discriminate].
      exists (Some ki), sg. split; [reflexivity|]. split; [reflexivity|].
      apply genuineb_spec, sig_valid_genuine with (t := t), Ev.
    + cbn [length] in Hj. assert (Hv' : exists c', validate kr tr sr gr msg = Ok c').
      { destruct sa0 as [|x sa']; [eauto|]. destruct k as [ki|]; [|discriminate].
        destruct (sig_valid ki t msg sg); [|discriminate].
        destruct (validate kr tr sr gr msg) as [c'|]; [eauto|discriminate]. }
      destruct Hv' as [c' Hv']. apply (IH _ _ _ _ _ Hv' j sa Hn); [lia|exact Hne].
Qed.

Lemma required_pos n s : (1 <= s)%nat -> (1 <= required n s)%nat.
Proof.
  intros Hs. unfold required. destruct (N.eqb_spec n 0) as [->|Hn]; cbn [orb]; [exact Hs|].
  destruct (Nat.ltb_spec s (N.to_nat n)); [exact Hs|]. lia.
Qed.
Lemma required_le n s : (required n s <= s)%nat.
Proof.
  unfold required. destruct (N.eqb n 0); cbn [orb]; [lia|]. destruct (Nat.ltb_spec s (N.to_nat n)); lia.
Qed.
Lemma required_policy n s : n <> 0%N -> (N.to_nat n <= s)%nat -> required n s = N.to_nat n.
Proof.
  intros Hn Hle. unfold required. destruct (N.eqb_spec n 0); [contradiction|]. cbn [orb].
  destruct (Nat.ltb_spec s (N.to_nat n)); [lia|reflexivity].
Qed.

(* the pieces of an invocation as the code computes them *)
Definition n_expected (i : authin) : nat := (a_argc i - 1 + 4)%nat.
Definition n_signers (i : authin) : nat := ((length (a_args i) - n_expected i) / 2)%nat.
Definition key_args (i : authin) := firstn (n_signers i) (skipn (n_expected i) (a_args i)).
Definition sig_args (i : authin) := firstn (n_signers i) (skipn (n_expected i + n_signers i) (a_args i)).
Definition the_msg (i : authin) := signed_bytes (a_fn i) (a_args i) (n_signers i).
Definition the_kis (i : authin) := List.map (lookup_key (a_keys i)) (key_args i).

(* SOUNDNESS.  A request is accepted for address A only if the access-control service maps the
   presented keys to A, A is neither black- nor grey-listed, the request names this chaincode
   and channel, and at least the required number (the policy's n, at least 1) of presented
   keys carry a genuine signature over exactly the signed bytes of this request. *)
Theorem auth_sound i o : auth i = Ok o ->
  exists n ktypes, a_acl i = AclOk (r_addr o) false false n ktypes /\
    nth 1 (a_args i) [] = a_cc i /\ nth 2 (a_args i) [] = a_ch i /\
    (forall r, a_routed i = Some r -> nth 1 (a_args i) [] = r) /\
    (1 <= n_signers i)%nat /\
    (required n (n_signers i) <= count_genuine (the_kis i) (sig_args i) (a_sigs i) (the_msg i))%nat /\
    (1 <= count_genuine (the_kis i) (sig_args i) (a_sigs i) (the_msg i))%nat.
Proof.
  unfold auth. fold (n_expected i).
  destruct (Nat.ltb_spec (length (a_args i)) (n_expected i)); [discriminate|].
  destruct (Nat.odd _); [discriminate|]. fold (n_signers i).
  destruct (Nat.eqb_spec (n_signers i) 0) as [|Hs]; [discriminate|].
  destruct (bool_decide (nth 1 (a_args i) [] = a_cc i)) eqn:E1; cbn [negb]; [|discriminate].
  destruct (match a_routed i with Some r => bool_decide (nth 1 (a_args i) [] = r) | None => true end) eqn:E3; cbn [negb]; [|discriminate].
  destruct (bool_decide (nth 2 (a_args i) [] = a_ch i)) eqn:E2; cbn [negb]; [|discriminate].
  apply bool_decide_eq_true in E1, E2.
  assert (H3 : forall r, a_routed i = Some r -> nth 1 (a_args i) [] = r).
  { intros r Hr. rewrite Hr in E3. apply bool_decide_eq_true in E3. exact E3. }
  destruct (a_acl i) as [|addr black grey n ktypes]; [discriminate|].
  destruct black; [discriminate|]. destruct grey; [discriminate|].
  fold (key_args i) (sig_args i) (the_kis i) (the_msg i).
  destruct (validate _ _ _ _ _) as [c|] eqn:Ev; cbn [rbind]; [|discriminate].
  destruct (Nat.ltb_spec c (required n (n_signers i))) as [|Hc]; [discriminate|].
  destruct (is_digits _); cbn [negb]; [|discriminate]. intros [= <-]. cbn [r_addr].
  apply validate_count in Ev. exists n, ktypes. repeat split; auto; try lia.
  pose proof (required_pos n (n_signers i) ltac:(lia)). lia.
Qed.

(* every non-blank signature of an accepted request is genuine *)
Theorem auth_no_bad_signature i o : auth i = Ok o ->
  forall j sa, nth_error (sig_args i) j = Some sa -> (j < length (the_kis i))%nat -> sa <> [] ->
  exists k sg, nth_error (the_kis i) j = Some k /\ nth_error (a_sigs i) j = Some sg /\ genuine k (the_msg i) sg.
Proof.
  unfold auth. fold (n_expected i).
  destruct (Nat.ltb_spec (length (a_args i)) (n_expected i)); [discriminate|].
  destruct (Nat.odd _); [discriminate|]. fold (n_signers i).
  destruct (Nat.eqb_spec (n_signers i) 0) as [|Hs]; [discriminate|].
  destruct (negb _); [discriminate|]. destruct (negb _); [discriminate|]. destruct (negb _); [discriminate|].
  destruct (a_acl i) as [|addr black grey n ktypes]; [discriminate|].
  destruct black; [discriminate|]. destruct grey; [discriminate|].
  fold (key_args i) (sig_args i) (the_kis i) (the_msg i).
  destruct (validate _ _ _ _ _) as [c|] eqn:Ev; cbn [rbind]; [|discriminate].
  intros _. eapply validate_all_nonblank. exact Ev.
Qed.

(* rejections that depend on the access-control answer *)
Theorem auth_acl_rejections i :
  (a_acl i = AclFail -> forall o, auth i <> Ok o) /\
  (forall addr g n kt, a_acl i = AclOk addr true g n kt -> forall o, auth i <> Ok o) /\
  (forall addr b n kt, a_acl i = AclOk addr b true n kt -> forall o, auth i <> Ok o).
Proof.
  repeat split; intros; intros Ho; apply auth_sound in Ho as (n' & kt' & Ha & _); congruence.
Qed.

(* a request is never accepted when all of its signatures are blank / missing *)
Theorem auth_needs_a_signature i o : auth i = Ok o ->
  exists j sa, nth_error (sig_args i) j = Some sa /\ sa <> [].
Proof.
  intros Ho. apply auth_sound in Ho as (n & kt & _ & _ & _ & _ & _ & _ & Hc).
  revert Hc. generalize (the_kis i) (sig_args i) (a_sigs i).
  intros kis. induction kis as [|k kr IH]; intros sas sgs; cbn [count_genuine]; [lia|].
  destruct sas as [|sa sr]; [lia|]. destruct sgs as [|sg gr]; [lia|].
  destruct sa as [|x sa'].
  - cbn. intros H. destruct (IH _ _ H) as (j & s & Hj & Hs). exists (S j), s. auto.
  - intros _. exists 0%nat, (x :: sa'). split; [reflexivity|discriminate].
Qed.

(* ---- C03: the signature covers exactly the signed bytes ----------------------- *)
(* If all well-formed signatures in a request were made over m0 (nobody can forge), the
   request is accepted only if its own signed bytes are m0. *)
Theorem sig_binds_message i o m0 :
  (forall sg sk kt m, In sg (a_sigs i) -> sg = SigBy sk kt m -> m = m0) ->
  auth i = Ok o -> the_msg i = m0.
Proof.
  intros Hall Ho. apply auth_sound in Ho as (n & kt & _ & _ & _ & _ & _ & _ & Hc).
  revert Hc. generalize (the_kis i) (sig_args i). intros kis sas.
  assert (G : forall sgs, (forall sg, In sg sgs -> In sg (a_sigs i)) ->
              (1 <= count_genuine kis sas sgs (the_msg i))%nat -> the_msg i = m0).
  { revert sas. induction kis as [|k kr IH]; intros sas sgs Hsub; cbn [count_genuine]; [lia|].
    destruct sas as [|sa sr]; [lia|]. destruct sgs as [|sg gr]; [lia|].
    destruct (match sa with [] => false | _ => genuineb k (the_msg i) sg end) eqn:Eg.
    - intros _. destruct sa; [discriminate|]. apply genuineb_spec in Eg.
      destruct k as [ki|]; [|destruct Eg]. destruct sg as [sk kt' m|]; [|destruct Eg].
      destruct Eg as (_ & _ & Em). rewrite <- Em.
      eapply Hall; [apply Hsub; left; reflexivity|reflexivity].
    - intros H. apply (IH sr gr); [intros sg' Hin; apply Hsub; right; exact Hin|lia]. }
  apply G. auto.
Qed.

Lemma app_inj_length {A} (a b c d : list A) : length a = length c -> a ++ b = c ++ d -> a = c /\ b = d.
Proof.
  revert c. induction a as [|x a IH]; intros [|y c] Hl H; cbn in *; try discriminate; [auto|].
  injection H as -> H. injection Hl as Hl. destruct (IH c Hl H) as [-> ->]. auto.
Qed.

Lemma concat_inj_lengths (A B : list (list N)) :
  List.map (@length N) A = List.map (@length N) B -> concat A = concat B -> A = B.
Proof.
  revert B. induction A as [|a A IH]; intros [|b B] Hl H; cbn in *; try discriminate; [reflexivity|].
  injection Hl as Hab Hl. destruct (app_inj_length _ _ _ _ Hab H) as [-> H']. f_equal. apply IH; assumption.
Qed.

(* equal signed bytes and equal field lengths => the same function name and the same signed
   arguments (request id, chaincode, channel, method arguments, nonce, signer keys) *)
Theorem same_lengths_same_request fn fn' (A A' : list (list N)) :
  fn ++ concat A = fn' ++ concat A' -> length fn = length fn' ->
  List.map (@length N) A = List.map (@length N) A' -> fn = fn' /\ A = A'.
Proof.
  intros H Hl HL. destruct (app_inj_length _ _ _ _ Hl H) as [-> Hc]. split; [reflexivity|].
  apply concat_inj_lengths; assumption.
Qed.

(* a request that does not name this chaincode and this channel is rejected *)
Theorem retarget_rejected i : (nth 1 (a_args i) [] <> a_cc i \/ nth 2 (a_args i) [] <> a_ch i \/
                               exists r, a_routed i = Some r /\ nth 1 (a_args i) [] <> r) ->
  forall o, auth i <> Ok o.
Proof.
  intros H o Ho. apply auth_sound in Ho as (n & kt & _ & H1 & H2 & H3 & _).
  destruct H as [H|[H|[r [Hr H]]]]; [tauto|tauto|]. apply H, H3, Hr.
Qed.
(* a request accepted by a chaincode that was reached through a peer names that chaincode, whatever the submitter
   wrote into the proposal payload *)
Theorem accepted_names_routed i o r : auth i = Ok o -> a_routed i = Some r -> nth 1 (a_args i) [] = r.
Proof. intros Ho Hr. apply auth_sound in Ho as (n & kt & _ & _ & _ & H3 & _). apply H3, Hr. Qed.

(* ---- F23 ---------------------------------------------------------------------------------- *)
(* the check as it was before the repair F23: only the name inside the payload is compared *)
Definition without_routed (i : authin) : authin :=
  AuthIn (a_argc i) (a_fn i) (a_args i) (a_cc i) (a_ch i) (a_acl i) (a_keys i) (a_sigs i) None.
(* a request signed for chaincode "c", delivered by a peer to chaincode "v" of the same channel in a proposal whose payload
   names "c": the old check accepts it, the present one refuses it *)
Theorem payload_name_only_refuted :
  exists i o r, a_routed i = Some r /\ nth 1 (a_args i) [] <> r /\ auth (without_routed i) = Ok o /\ forall o', auth i <> Ok o'.
Proof.
  set (k1 := [107; 49]%N). set (fn := [102]%N). set (cc := [99]%N). set (vv := [118]%N).
  set (base := [[]; cc; cc; [49; 48]%N; [48; 97]%N; [49; 55]%N; k1]).
  set (msg := fn ++ concat base).
  set (i := AuthIn 3 fn (base ++ [[115]%N]) cc cc (AclOk 9 false false 1 [0%N]) [(k1, KI 1 0 false)] [SigBy 1 0 msg] (Some vv)).
  exists i. eexists. exists vv. split; [reflexivity|]. split; [vm_compute; discriminate|]. split; [vm_compute; reflexivity|].
  intros o' H. apply (retarget_rejected i) with (o := o'); [|exact H]. right. right. exists vv. split; [reflexivity|vm_compute; discriminate].
Qed.

(* ---- distinct signers ------------------------------------------------------------------- *)
(* the presented key strings at the positions that hold a non-blank genuine signature *)
Fixpoint genuine_keys (keyargs : list (list N)) (kis : list (option keyinfo)) (sigargs : list (list N))
         (sigs : list sigv) (msg : list N) : list (list N) :=
  match keyargs, kis, sigargs, sigs with
  | ka :: kar, k :: kr, sa :: sr, sg :: gr =>
    (if match sa with [] => false | _ => genuineb k msg sg end then [ka] else []) ++ genuine_keys kar kr sr gr msg
  | _, _, _, _ => []
  end.

Lemma genuine_keys_length keyargs : forall kis sigargs sigs msg, length keyargs = length kis ->
  length (genuine_keys keyargs kis sigargs sigs msg) = count_genuine kis sigargs sigs msg.
Proof.
  induction keyargs as [|ka kar IH]; intros kis sigargs sigs msg Hl; destruct kis as [|k kr]; cbn in Hl; try discriminate; [reflexivity|].
  cbn [genuine_keys count_genuine]. destruct sigargs as [|sa sr]; [reflexivity|]. destruct sigs as [|sg gr]; [reflexivity|].
  rewrite app_length, IH by lia. destruct (match sa with [] => false | _ => genuineb k msg sg end); reflexivity.
Qed.

Lemma genuine_keys_in keyargs : forall kis sigargs sigs msg x,
  In x (genuine_keys keyargs kis sigargs sigs msg) -> In x keyargs.
Proof.
  induction keyargs as [|ka kar IH]; intros kis sigargs sigs msg x; cbn [genuine_keys]; [tauto|].
  destruct kis as [|k kr]; [cbn; tauto|]. destruct sigargs as [|sa sr]; [cbn; tauto|]. destruct sigs as [|sg gr]; [cbn; tauto|].
  intros H. apply in_app_or in H. destruct H as [H|H].
  - destruct (match sa with [] => false | _ => genuineb k msg sg end); [|destruct H]. destruct H as [->|[]]. left. reflexivity.
  - right. eapply IH, H.
Qed.

Lemma genuine_keys_nodup keyargs : forall kis sigargs sigs msg, List.NoDup keyargs ->
  List.NoDup (genuine_keys keyargs kis sigargs sigs msg).
Proof.
  induction keyargs as [|ka kar IH]; intros kis sigargs sigs msg Hn; cbn [genuine_keys]; [constructor|].
  destruct kis as [|k kr]; [constructor|]. destruct sigargs as [|sa sr]; [constructor|]. destruct sigs as [|sg gr]; [constructor|].
  inversion Hn as [|? ? Hnotin Hn']; subst.
  destruct (match sa with [] => false | _ => genuineb k msg sg end); cbn [app].
  - constructor; [|apply IH, Hn']. intros Hc. apply Hnotin. eapply genuine_keys_in, Hc.
  - apply IH, Hn'.
Qed.

(* every key in the list carries a genuine signature at its own position *)
Lemma genuine_keys_signed keyargs : forall kis sigargs sigs msg x,
  In x (genuine_keys keyargs kis sigargs sigs msg) ->
  exists j k sg, nth_error keyargs j = Some x /\ nth_error kis j = Some k /\ nth_error sigs j = Some sg /\ genuine k msg sg.
Proof.
  induction keyargs as [|ka kar IH]; intros kis sigargs sigs msg x; cbn [genuine_keys]; [intros []|].
  destruct kis as [|k kr]; [intros []|]. destruct sigargs as [|sa sr]; [intros []|]. destruct sigs as [|sg gr]; [intros []|].
  intros H. apply in_app_or in H. destruct H as [H|H].
  - destruct sa as [|c sa']; [destruct H|]. destruct (genuineb k msg sg) eqn:Eg; [|destruct H]. destruct H as [->|[]].
    exists 0%nat, k, sg. repeat split; try reflexivity. apply genuineb_spec, Eg.
  - destruct (IH _ _ _ _ _ H) as (j & k' & sg' & H1 & H2 & H3 & H4). exists (S j), k', sg'. repeat split; assumption.
Qed.

(* DISTINCT SIGNERS: when the presented key list has no repetition (an access-control service registers key lists
   without repetition and answers for exactly the presented list), an accepted request carries genuine signatures
   of at least the required number of DISTINCT presented keys *)
Theorem auth_distinct_signers i o : auth i = Ok o -> List.NoDup (key_args i) ->
  exists n ktypes ks, a_acl i = AclOk (r_addr o) false false n ktypes /\
    List.NoDup ks /\ (required n (n_signers i) <= length ks)%nat /\ (1 <= length ks)%nat /\
    forall x, In x ks -> exists j k sg, nth_error (key_args i) j = Some x /\ nth_error (the_kis i) j = Some k /\
                                        nth_error (a_sigs i) j = Some sg /\ genuine k (the_msg i) sg.
Proof.
  intros Ha Hn. destruct (auth_sound i o Ha) as (n & kt & H1 & _ & _ & _ & _ & H5 & H6).
  exists n, kt, (genuine_keys (key_args i) (the_kis i) (sig_args i) (a_sigs i) (the_msg i)).
  assert (Hl : length (key_args i) = length (the_kis i)) by (unfold the_kis; rewrite map_length; reflexivity).
  split; [exact H1|]. split; [apply genuine_keys_nodup, Hn|].
  rewrite (genuine_keys_length _ _ _ _ _ Hl). split; [exact H5|]. split; [exact H6|].
  intros x Hx. eapply genuine_keys_signed, Hx.
Qed.

(* ---- CheckSign (older request format) ------------------------------------------------------ *)
Lemma validate_all_genuine kis : forall sigs msg, validate_all kis sigs msg = true ->
  forall j k, nth_error kis j = Some k -> exists sg, nth_error sigs j = Some sg /\ genuine k msg sg.
Proof.
  induction kis as [|k0 kr IH]; intros sigs msg Hv j k Hj; [destruct j; discriminate|].
  destruct sigs as [|sg gr]; [discriminate|]. cbn [validate_all] in Hv. apply andb_true_iff in Hv as [H0 Hr].
  destruct j as [|j]; cbn in Hj.
  - injection Hj as <-. exists sg. split; [reflexivity|]. destruct k0 as [ki|]; [|discriminate].
    apply genuineb_spec. eapply sig_valid_genuine, H0.
  - destruct (IH gr msg Hr j k Hj) as (sg' & H1 & H2). exists sg'. split; assumption.
Qed.

(* accepted for A only if the service maps the presented keys to A, A is neither black- nor grey-listed, and EVERY
   presented key - at least one - carries a genuine signature over exactly function name, arguments and keys *)
Theorem check_sign_sound i a : check_sign i = Ok a ->
  exists n ktypes, a_acl i = AclOk a false false n ktypes /\ (1 <= cs_signers i)%nat /\
    forall j k, nth_error (cs_kis i) j = Some k -> exists sg, nth_error (a_sigs i) j = Some sg /\ genuine k (cs_msg i) sg.
Proof.
  unfold check_sign. destruct (Nat.eqb_spec (cs_signers i) 0) as [|Hs]; [discriminate|].
  destruct (validate_all (cs_kis i) (a_sigs i) (cs_msg i)) eqn:Ev; cbn [negb]; [|discriminate].
  destruct (a_acl i) as [|addr black grey n kt]; [discriminate|].
  destruct black; [discriminate|]. destruct grey; [discriminate|]. intros [= <-].
  exists n, kt. split; [reflexivity|]. split; [lia|]. apply validate_all_genuine, Ev.
Qed.
