From Fnd Require Import Base.Prelude Model.Gate.

Definition robot_fn (f : fname) : bool := match f with FBatchExecute | FRobotFn _ => true | _ => false end.

(* batch execution and the transfer-robot functions reach a handler only for the robot identity *)
Theorem robot_only c cr f h : robot_fn f = true -> invoke_gate c cr f = GHandled h ->
  cr_ok cr = true /\ g_robot c <> 0%N /\ (g_robot c = cr_ski cr \/ g_robot c = cr_hash cr).
Proof.
  unfold invoke_gate. destruct (cr_ok cr); cbn [negb]; [|discriminate].
  destruct f; try discriminate; intros _; destruct (is_robot c cr) eqn:E; try discriminate; intros _;
    unfold is_robot in E; apply andb_true_iff in E as [E1 E2]; apply negb_true_iff, N.eqb_neq in E1;
    apply orb_true_iff in E2; rewrite !N.eqb_eq in E2; auto.
Qed.

(* an empty robot key never authorises anybody *)
Theorem empty_robot_key_rejects c cr f : g_robot c = 0%N -> robot_fn f = true ->
  forall h, invoke_gate c cr f <> GHandled h.
Proof.
  intros H0 Hf h Hh. destruct (robot_only _ _ _ _ Hf Hh) as (_ & Hn & _). contradiction.
Qed.

(* a disabled function (or a swap / multi-swap function while swaps are switched off) is
   unreachable on every route: direct call, batched submission, task execution *)
Theorem disabled_unreachable c cr m : disabled c m = true ->
  (forall h, invoke_gate c cr (FMethod m) <> GHandled h) /\
  (forall h, invoke_gate c cr (FRobotFn m) <> GHandled h) /\
  (forall h, task_gate c (FMethod m) <> GHandled h) /\
  (forall h, task_gate c (FRobotFn m) <> GHandled h).
Proof.
  intros Hd. unfold invoke_gate, task_gate, route_method. rewrite Hd.
  repeat split; intros h; destruct (cr_ok cr); cbn [negb]; try discriminate; destruct (is_robot c cr); discriminate.
Qed.

Theorem swap_done_gated c cr : 
  (g_noswaps c = true -> forall h, invoke_gate c cr FSwapDone <> GHandled h) /\
  (g_nomultiswaps c = true -> forall h, invoke_gate c cr FMultiSwapDone <> GHandled h).
Proof.
  unfold invoke_gate. split; intros H h; rewrite H; destruct (cr_ok cr); discriminate.
Qed.

(* every invocation needs a parsable creator *)
Theorem bad_creator_rejected c cr f : cr_ok cr = false -> invoke_gate c cr f = GCreatorErr.
Proof. intros H. unfold invoke_gate. rewrite H. reflexivity. Qed.

Theorem init_admin_only cr : init_gate cr = true -> cr_ok cr = true /\ cr_admin_ou cr = true.
Proof. unfold init_gate. apply andb_true_iff. Qed.

Theorem admin_methods_admin_only c s : admin_gate c s = true -> g_admin c <> 0%N /\ s = g_admin c.
Proof.
  unfold admin_gate. rewrite andb_true_iff, negb_true_iff, N.eqb_neq, N.eqb_eq. tauto.
Qed.

(* a method reaches a handler exactly when it is not disabled, and then by its kind *)
Theorem method_routing c cr m : cr_ok cr = true -> disabled c m = false ->
  invoke_gate c cr (FMethod m) =
  match m_kind m with MTx => GHandled (HSubmit m) | _ => GHandled (HImmediate m) end.
Proof. intros H1 H2. unfold invoke_gate, route_method. rewrite H1, H2. reflexivity. Qed.

Theorem batch_sections_gated c :
  (g_noswaps c = true -> fst (batch_sections c) = false) /\
  (g_nomultiswaps c = true -> snd (batch_sections c) = false).
Proof. unfold batch_sections. split; intros ->; reflexivity. Qed.
