(* Proofs about Model/Batch.v: executing a batch / a task list through the layered caches
   is the same as executing the listed transactions one after another on the plain ledger,
   each all-or-nothing. *)
From Fnd Require Import Base.Prelude Model.Cache Model.Nonce Model.Batch Proofs.CacheProofs.

Definition view (b : bcs) (k : N) : list N :=
  match bw b !! k with Some e => wval e | None => led_get (led b) k end.
Definition wd_ok (w : gmap N welem) : Prop := forall k e, w !! k = Some e -> wdel e = true -> wval e = [].

(* the batch cache [b] presents the ledger [m] *)
Definition V (b : bcs) (m : ledger) : Prop :=
  br_ok b /\ wd_ok (bw b) /\ forall k, view b k = led_get m k.
(* the transaction cache [t] over [b] presents [m] *)
Definition tview (b : bcs) (t : tcs) (k : N) : list N :=
  match t !! k with Some e => wval e | None => view b k end.
Definition VT (b : bcs) (t : tcs) (m : ledger) : Prop :=
  br_ok b /\ wd_ok (bw b) /\ wd_ok t /\ forall k, tview b t k = led_get m k.

Lemma led_get_put m k v k' : led_get (led_put m k v) k' = if decide (k' = k) then v else led_get m k'.
Proof.
  unfold led_get. rewrite led_put_lookup. destruct (decide (k' = k)); [|reflexivity].
  destruct v; reflexivity.
Qed.
Lemma led_get_del m k k' : led_get (led_del m k) k' = if decide (k' = k) then [] else led_get m k'.
Proof.
  unfold led_get, led_del. destruct (decide (k' = k)) as [->|].
  - rewrite lookup_delete. reflexivity.
  - rewrite lookup_delete_ne by congruence. reflexivity.
Qed.

Lemma V_init l : V (BCS l ∅ ∅) l.
Proof.
  split; [|split].
  - intros k v H. cbn in H. rewrite lookup_empty in H. discriminate.
  - intros k e H. cbn in H. rewrite lookup_empty in H. discriminate.
  - intros k. unfold view. cbn. rewrite lookup_empty. reflexivity.
Qed.

Lemma V_get b m k b' v : V b m -> b_get b k = (b', v) -> v = led_get m k /\ V b' m.
Proof.
  intros (H1 & H2 & H3) E. destruct (b_get_spec _ _ _ _ H1 E) as (E1 & E2 & E3 & E4).
  split.
  - rewrite <- H3. unfold view. exact E4.
  - split; [exact E3|]. split; [rewrite E2; exact H2|]. intros k'. rewrite <- H3. unfold view. rewrite E1, E2. reflexivity.
Qed.

Lemma V_put b m k v : V b m -> V (b_put b k v) (led_put m k v).
Proof.
  intros (H1 & H2 & H3). split; [exact H1|]. split.
  - intros k' e. cbn. destruct (decide (k' = k)) as [->|Hne].
    + rewrite lookup_insert. intros [= <-]. cbn. discriminate.
    + rewrite lookup_insert_ne by congruence. apply H2.
  - intros k'. unfold view. cbn [b_put bw led]. rewrite led_get_put.
    destruct (decide (k' = k)) as [->|Hne].
    + rewrite lookup_insert. reflexivity.
    + rewrite lookup_insert_ne by congruence. apply H3.
Qed.

Lemma V_del b m k : V b m -> V (b_del b k) (led_del m k).
Proof.
  intros (H1 & H2 & H3). split; [exact H1|]. split.
  - intros k' e. cbn. destruct (decide (k' = k)) as [->|Hne].
    + rewrite lookup_insert. intros [= <-]. reflexivity.
    + rewrite lookup_insert_ne by congruence. apply H2.
  - intros k'. unfold view. cbn [b_del bw led]. rewrite led_get_del.
    destruct (decide (k' = k)) as [->|Hne].
    + rewrite lookup_insert. reflexivity.
    + rewrite lookup_insert_ne by congruence. apply H3.
Qed.

Lemma VT_start b m : V b m -> VT b ∅ m.
Proof.
  intros (H1 & H2 & H3). split; [exact H1|]. split; [exact H2|]. split.
  - intros k e H. rewrite lookup_empty in H. discriminate.
  - intros k. unfold tview. rewrite lookup_empty. apply H3.
Qed.

Lemma VT_put b t m k v : VT b t m -> VT b (t_put t k v) (led_put m k v).
Proof.
  intros (H1 & H2 & H3 & H4). split; [exact H1|]. split; [exact H2|]. split.
  - intros k' e. unfold t_put. destruct (decide (k' = k)) as [->|Hne].
    + rewrite lookup_insert. intros [= <-]. cbn. discriminate.
    + rewrite lookup_insert_ne by congruence. apply H3.
  - intros k'. unfold tview, t_put. rewrite led_get_put. destruct (decide (k' = k)) as [->|Hne].
    + rewrite lookup_insert. reflexivity.
    + rewrite lookup_insert_ne by congruence. apply H4.
Qed.
Lemma VT_del b t m k : VT b t m -> VT b (t_del t k) (led_del m k).
Proof.
  intros (H1 & H2 & H3 & H4). split; [exact H1|]. split; [exact H2|]. split.
  - intros k' e. unfold t_del. destruct (decide (k' = k)) as [->|Hne].
    + rewrite lookup_insert. intros [= <-]. reflexivity.
    + rewrite lookup_insert_ne by congruence. apply H3.
  - intros k'. unfold tview, t_del. rewrite led_get_del. destruct (decide (k' = k)) as [->|Hne].
    + rewrite lookup_insert. reflexivity.
    + rewrite lookup_insert_ne by congruence. apply H4.
Qed.

Lemma VT_get b t m k b' v : VT b t m -> t_get b t k = (b', v) -> v = led_get m k /\ VT b' t m /\ bw b' = bw b /\ led b' = led b.
Proof.
  intros (H1 & H2 & H3 & H4) E. unfold t_get in E. specialize (H4 k) as H4k. unfold tview in H4k.
  destruct (t !! k) as [e|] eqn:Et.
  - injection E as <- <-. split; [exact H4k|]. split; [|split; reflexivity]. repeat split; assumption.
  - destruct (b_get_spec _ _ _ _ H1 E) as (E1 & E2 & E3 & E4). split.
    + rewrite <- H4k. unfold view. exact E4.
    + split; [|split; assumption]. split; [exact E3|]. split; [rewrite E2; exact H2|]. split; [exact H3|].
      intros k'. rewrite <- H4. unfold tview, view. rewrite E1, E2. reflexivity.
Qed.

(* running a body on the caches = running it on the presented ledger *)
Lemma run_c_sim bd : forall b t m ev gets, VT b t m ->
  let '(o, b', t', ev', gets') := run_c b t ev gets bd in
  let '(o2, m', ev2, gets2) := run_p m ev gets bd in
  o = o2 /\ ev' = ev2 /\ gets' = gets2 /\ bw b' = bw b /\ led b' = led b /\ br_ok b' /\
  t' = body_writes t bd /\ (o = OOk -> VT b' t' m').
Proof.
  induction bd as [|st bd IH]; intros b t m ev gets HV; cbn [run_c run_p body_writes].
  - destruct HV as (H1 & H2 & H3 & H4). repeat split; auto.
  - destruct st as [k v|k|k|n v| |].
    + apply IH. apply VT_put, HV.
    + apply IH. apply VT_del, HV.
    + destruct (t_get b t k) as [b1 v] eqn:Eg.
      destruct (VT_get _ _ _ _ _ _ HV Eg) as (-> & HV' & Ew & El).
      specialize (IH b1 t m ev (gets ++ [led_get m k]) HV').
      destruct (run_c b1 t ev (gets ++ [led_get m k]) bd) as [[[[o b'] t'] ev'] gets'].
      destruct (run_p m ev (gets ++ [led_get m k]) bd) as [[[o2 m'] ev2] gets2].
      destruct IH as (A & B & C & D & E & F & G & H).
      split; [exact A|]. split; [exact B|]. split; [exact C|]. split; [congruence|]. split; [congruence|].
      split; [exact F|]. split; [exact G|exact H].
    + apply IH. exact HV.
    + destruct HV as (H1 & _). repeat split; auto; congruence.
    + destruct HV as (H1 & _). repeat split; auto; congruence.
Qed.

Lemma VT_commit b t m : VT b t m -> V (fst (t_commit b t)) m.
Proof.
  intros (H1 & H2 & H3 & H4). unfold t_commit. cbn [fst]. split; [exact H1|]. split.
  - intros k e. cbn [bw]. rewrite lookup_union_Some_raw. intros [Ht|[_ Hb]]; [apply (H3 _ _ Ht)|apply (H2 _ _ Hb)].
  - intros k. rewrite <- H4. unfold view, tview. cbn [bw led].
    destruct (t !! k) as [e|] eqn:Et.
    + rewrite (lookup_union_Some_l _ _ _ _ Et). reflexivity.
    + rewrite lookup_union_r by exact Et. reflexivity.
Qed.

Lemma V_same_frame b b' m : V b m -> bw b' = bw b -> led b' = led b -> br_ok b' -> V b' m.
Proof.
  intros (H1 & H2 & H3) Ew El Hb. split; [exact Hb|]. split; [rewrite Ew; exact H2|].
  intros k. rewrite <- H3. unfold view. rewrite Ew, El. reflexivity.
Qed.

Lemma run_tx_sim b m bd : V b m ->
  let '(b', r) := run_tx b bd in let '(m', r2) := spec_tx m bd in r = r2 /\ V b' m'.
Proof.
  intros HV. unfold run_tx, spec_tx.
  pose proof (run_c_sim bd b ∅ m ∅ [] (VT_start _ _ HV)) as H.
  destruct (run_c b ∅ ∅ [] bd) as [[[[o b'] t'] ev'] gets'].
  destruct (run_p m ∅ [] bd) as [[[o2 m'] ev2] gets2].
  destruct H as (<- & <- & <- & Ew & El & Hb & Ht & Hok).
  destruct o.
  - specialize (Hok eq_refl). pose proof (VT_commit _ _ _ Hok) as Hc.
    destruct (t_commit b' t') as [b3 ws] eqn:Ec. cbn [fst] in Hc. split; [|exact Hc].
    unfold t_commit in Ec. injection Ec as _ <-. rewrite Ht. reflexivity.
  - split; [reflexivity|]. eapply V_same_frame; eassumption.
  - split; [reflexivity|]. eapply V_same_frame; eassumption.
Qed.

Lemma check_nonce_sim b m s n : V b m ->
  let '(b', e) := check_nonce_c b s n in
  match set_nonce n (led_get m (nk s)) with
  | (w', None) => e = None /\ V b' (led_put m (nk s) w')
  | (_, Some x) => e = Some x /\ V b' m
  end.
Proof.
  intros HV. unfold check_nonce_c. destruct (b_get b (nk s)) as [b1 w] eqn:Eg.
  destruct (V_get _ _ _ _ _ HV Eg) as [-> HV1].
  destruct (set_nonce n (led_get m (nk s))) as [w' [x|]].
  - split; [reflexivity|exact HV1].
  - split; [reflexivity|]. apply V_put, HV1.
Qed.

Lemma exec_body_sim b m s n bd : V b m ->
  let '(b', r) := exec_body b s n bd in let '(m', r2) := spec_body m s n bd in r = r2 /\ V b' m'.
Proof.
  intros HV. unfold exec_body, spec_body. pose proof (check_nonce_sim b m s n HV) as H.
  destruct (check_nonce_c b s n) as [b1 e]. destruct (set_nonce n (led_get m (nk s))) as [w' [x|]].
  - destruct H as [-> HV1]. split; [reflexivity|exact HV1].
  - destruct H as [-> HV1]. apply run_tx_sim, HV1.
Qed.

Lemma batch_item_sim bodies b m id : V b m ->
  let '(b', r) := batch_item bodies b id in let '(m', r2) := spec_item bodies m id in r = r2 /\ V b' m'.
Proof.
  intros HV. unfold batch_item, spec_item. destruct (b_get b (pk id)) as [b1 data] eqn:Eg.
  destruct (V_get _ _ _ _ _ HV Eg) as [-> HV1].
  destruct (led_get m (pk id)) as [|s [|n [|bi [|? ?]]]];
    try (split; [reflexivity|exact HV1]); try (split; [reflexivity|apply V_del, HV1]).
  destruct (N.eqb s 0); [apply run_tx_sim, V_del, HV1|].
  pose proof (check_nonce_sim b1 m s n HV1) as H.
  destruct (check_nonce_c b1 s n) as [b2 e]. destruct (set_nonce n (led_get m (nk s))) as [w' [x|]].
  - destruct H as [-> HV2]. split; [reflexivity|apply V_del, HV2].
  - destruct H as [-> HV2]. apply run_tx_sim, V_del, HV2.
Qed.

Lemma batch_items_sim bodies ids : forall b m, V b m ->
  let '(b', rs) := batch_items bodies b ids in let '(m', rs2) := spec_batch bodies m ids in rs = rs2 /\ V b' m'.
Proof.
  induction ids as [|id ids IH]; intros b m HV; cbn [batch_items spec_batch]; [split; [reflexivity|exact HV]|].
  pose proof (batch_item_sim bodies b m id HV) as H.
  destruct (batch_item bodies b id) as [b1 r]. destruct (spec_item bodies m id) as [m1 r2].
  destruct H as [<- HV1]. specialize (IH b1 m1 HV1).
  destruct (batch_items bodies b1 ids) as [b2 rs]. destruct (spec_batch bodies m1 ids) as [m2 rs2].
  destruct IH as [<- HV2]. split; [reflexivity|exact HV2].
Qed.

Lemma task_items_sim bodies ts : forall b m, V b m ->
  let '(b', rs) := task_items bodies b ts in let '(m', rs2) := spec_tasks bodies m ts in rs = rs2 /\ V b' m'.
Proof.
  induction ts as [|t ts IH]; intros b m HV; cbn [task_items spec_tasks]; [split; [reflexivity|exact HV]|].
  pose proof (exec_body_sim b m (tk_sender t) (tk_nonce t) (nth_body bodies (tk_body t)) HV) as H.
  destruct (exec_body b _ _ _) as [b1 r]. destruct (spec_body m _ _ _) as [m1 r2].
  destruct H as [<- HV1]. specialize (IH b1 m1 HV1).
  destruct (task_items bodies b1 ts) as [b2 rs]. destruct (spec_tasks bodies m1 ts) as [m2 rs2].
  destruct IH as [<- HV2]. split; [reflexivity|exact HV2].
Qed.

Lemma commit_view b m : V b m -> forall k, led_get (b_commit b) k = led_get m k.
Proof.
  intros (H1 & H2 & H3) k. rewrite <- H3. unfold b_commit, led_get at 1. rewrite b_commit_lookup.
  unfold final_at, view. destruct (bw b !! k) as [e|] eqn:Ee; [|reflexivity].
  destruct (wdel e) eqn:Ed.
  - rewrite (H2 _ _ Ee Ed). reflexivity.
  - destruct (wval e); reflexivity.
Qed.

(* MAIN: a batch is equivalent to serial, all-or-nothing execution in the listed order:
   same reply for every listed id (error, or writes/events/results), same final ledger *)
Theorem batch_is_serial bodies l ids :
  snd (batch_exec bodies l ids) = snd (spec_batch bodies l ids) /\
  forall k, led_get (fst (batch_exec bodies l ids)) k = led_get (fst (spec_batch bodies l ids)) k.
Proof.
  unfold batch_exec. pose proof (batch_items_sim bodies ids _ _ (V_init l)) as H.
  destruct (batch_items bodies (BCS l ∅ ∅) ids) as [b rs]. destruct (spec_batch bodies l ids) as [m rs2].
  destruct H as [<- HV]. split; [reflexivity|]. cbn [fst]. apply commit_view, HV.
Qed.

Theorem tasks_is_serial bodies l ts :
  snd (tasks_exec bodies l ts) = snd (spec_tasks bodies l ts) /\
  forall k, led_get (fst (tasks_exec bodies l ts)) k = led_get (fst (spec_tasks bodies l ts)) k.
Proof.
  unfold tasks_exec. pose proof (task_items_sim bodies ts _ _ (V_init l)) as H.
  destruct (task_items bodies (BCS l ∅ ∅) ts) as [b rs]. destruct (spec_tasks bodies l ts) as [m rs2].
  destruct H as [<- HV]. split; [reflexivity|]. cbn [fst]. apply commit_view, HV.
Qed.

(* ---- consequences on the serial specification --------------------------------------- *)
(* a transaction that fails or panics leaves nothing but its consumed nonce *)
Theorem failed_item_leaves_nothing l bd : forall r, snd (spec_tx l bd) = IErr r -> fst (spec_tx l bd) = l.
Proof.
  intros r. unfold spec_tx. destruct (run_p l ∅ [] bd) as [[[o m] ev] g]. destruct o; cbn; [discriminate|reflexivity|reflexivity].
Qed.

(* a successful transaction's effect is exactly its body run on the ledger the previous
   transactions left (so all of its writes are visible to the transactions after it) *)
Theorem successful_item_applies l bd ws ev g : snd (spec_tx l bd) = IOk ws ev g ->
  exists m' ev', run_p l ∅ [] bd = (OOk, m', ev', g) /\ fst (spec_tx l bd) = m' /\
                 ws = wlist (body_writes ∅ bd) /\ ev = ev_list ev'.
Proof.
  unfold spec_tx. destruct (run_p l ∅ [] bd) as [[[o m] ev0] g0]. destruct o; cbn; [|discriminate|discriminate].
  intros [= <- <- <-]. exists m, ev0. auto.
Qed.
