(* Proofs about Model/Envs.v *)
From Fnd Require Import Base.Prelude Model.Envs.

Section EnvProofs.
  Variable ths : list (N * N * list N).          (* (goroutine id, transaction, keys it writes) *)
  Hypothesis gids_distinct : NoDup (List.map (fun it => fst (fst it)) ths).
  Hypothesis stubs_distinct : NoDup (List.map (fun it => snd (fst it)) ths).

  Definition wr (s : cstate) (stub : N) : list N := default [] (cs_writes s !! stub).

  Definition tinv (s : cstate) (i : nat) (it : N * N * list N) : Prop :=
    let '(gid, stub, ks) := it in
    exists t, cs_threads s !! i = Some t /\ ct_gid t = gid /\ ct_stub t = stub /\
      ((ct_todo t = prog ks /\ wr s stub = []) \/
       (exists n, (n <= length ks)%nat /\ ct_todo t = List.map IUse (drop n ks) ++ [IDel] /\
                  cs_table s !! gid = Some stub /\ wr s stub = take n ks) \/
       (ct_todo t = [] /\ wr s stub = ks)).

  Definition CInv (s : cstate) : Prop :=
    (forall i it, ths !! i = Some it -> tinv s i it) /\ cs_nil s = [] /\
    (forall i t, cs_threads s !! i = Some t -> exists it, ths !! i = Some it).

  Lemma cinv_init : CInv (c_init ths).
  Proof.
    split; [|split].
    - intros i [[gid stub] ks] Hi. exists (mk_thread (gid, stub, ks)). cbn.
      rewrite lookup_map_seq_0, list_lookup_fmap, Hi. cbn. repeat split; auto.
    - reflexivity.
    - intros i t. cbn. rewrite lookup_map_seq_0, list_lookup_fmap. destruct (ths !! i) as [it|]; [eauto|discriminate].
  Qed.

  Lemma distinct_gid i j it jt : i <> j -> ths !! i = Some it -> ths !! j = Some jt -> fst (fst it) <> fst (fst jt).
  Proof.
    intros Hne Hi Hj Heq. apply Hne.
    eapply (NoDup_lookup (List.map (fun it => fst (fst it)) ths)); [exact gids_distinct| |].
    - rewrite list_lookup_fmap, Hi. reflexivity.
    - rewrite list_lookup_fmap, Hj. cbn. congruence.
  Qed.
  Lemma distinct_stub i j it jt : i <> j -> ths !! i = Some it -> ths !! j = Some jt -> snd (fst it) <> snd (fst jt).
  Proof.
    intros Hne Hi Hj Heq. apply Hne.
    eapply (NoDup_lookup (List.map (fun it => snd (fst it)) ths)); [exact stubs_distinct| |].
    - rewrite list_lookup_fmap, Hi. reflexivity.
    - rewrite list_lookup_fmap, Hj. cbn. congruence.
  Qed.

  Lemma cinv_step s j : CInv s -> CInv (c_step by_gid s j).
  Proof.
    intros (Hth & Hnil & Hdom). unfold c_step.
    destruct (cs_threads s !! j) as [t|] eqn:Ej; [|split; auto].
    destruct (Hdom _ _ Ej) as ([[gj sj] kj] & Hj).
    destruct (Hth _ _ Hj) as (t' & Et' & Hg & Hs & Hphase). rewrite Ej in Et'. injection Et' as <-.
    destruct (ct_todo t) as [|ins rest] eqn:Etodo; [split; auto|].
    (* frame for the other threads *)
    assert (Hframe : forall tab wrs, 
              (forall i it, i <> j -> ths !! i = Some it -> tab !! fst (fst it) = cs_table s !! fst (fst it)) ->
              (forall i it, i <> j -> ths !! i = Some it -> default [] (wrs !! snd (fst it)) = wr s (snd (fst it))) ->
              forall i it, i <> j -> ths !! i = Some it ->
              tinv (CS tab wrs (cs_nil s) (<[j := CT (ct_gid t) (ct_stub t) rest]> (cs_threads s))) i it).
    { intros tab wrs Htab Hwrs i [[gi si] ki] Hne Hi. specialize (Htab _ _ Hne Hi). specialize (Hwrs _ _ Hne Hi). cbn in Htab, Hwrs.
      destruct (Hth _ _ Hi) as (ti & Eti & Hgi & Hsi & Hph). exists ti. cbn [cs_threads cs_table].
      rewrite lookup_insert_ne by congruence. repeat split; auto. unfold wr in *. cbn [cs_writes]. rewrite Hwrs, Htab. exact Hph. }
    assert (Hdom' : forall i t0, <[j := CT (ct_gid t) (ct_stub t) rest]> (cs_threads s) !! i = Some t0 -> exists it, ths !! i = Some it).
    { intros i t0 H. apply lookup_insert_Some in H as [[<- _]|[_ H]]; eauto. }
    unfold by_gid. subst gj sj.
    destruct Hphase as [[Hp Hw]|[(n & Hn & Hp & Htab & Hw)|[Hp Hw]]].
    - (* not started: the instruction is ISet *)
      unfold prog in Hp. injection Hp as -> ->.
      split; [|split; [exact Hnil|exact Hdom']].
      intros i it Hi. destruct (decide (i = j)) as [->|Hne].
      + rewrite Hj in Hi. injection Hi as <-. exists (CT (ct_gid t) (ct_stub t) (List.map IUse kj ++ [IDel])). cbn [cs_threads cs_table cs_writes].
        rewrite lookup_insert. split; [reflexivity|]. split; [reflexivity|]. split; [reflexivity|].
        right. left. exists 0%nat. rewrite drop_0, take_0. split; [lia|]. split; [reflexivity|]. split; [apply lookup_insert|exact Hw].
      + apply Hframe; auto.
        intros i' it' Hne' Hi'. rewrite lookup_insert_ne; [reflexivity|]. pose proof (distinct_gid _ _ _ _ Hne' Hi' Hj) as H. cbn in H. congruence.
    - (* inside *)
      destruct (drop n kj) as [|k ks'] eqn:Ed; cbn [List.map app] in Hp; injection Hp as -> ->.
      + (* IDel *)
        split; [|split; [exact Hnil|exact Hdom']].
        intros i it Hi. destruct (decide (i = j)) as [->|Hne].
        * rewrite Hj in Hi. injection Hi as <-. exists (CT (ct_gid t) (ct_stub t) []). cbn [cs_threads cs_table cs_writes].
          rewrite lookup_insert. split; [reflexivity|]. split; [reflexivity|]. split; [reflexivity|]. right. right. split; [reflexivity|].
          unfold wr in *. cbn [cs_writes]. rewrite Hw. apply take_ge. pose proof (drop_length kj n) as Hl. rewrite Ed in Hl. cbn in Hl. lia.
        * apply Hframe; auto.
          intros i' it' Hne' Hi'. rewrite lookup_delete_ne; [reflexivity|]. pose proof (distinct_gid _ _ _ _ Hne' Hi' Hj) as H. cbn in H. congruence.
      + (* IUse k *)
        rewrite Htab. split; [|split; [exact Hnil|exact Hdom']].
        intros i it Hi. destruct (decide (i = j)) as [->|Hne].
        * rewrite Hj in Hi. injection Hi as <-. exists (CT (ct_gid t) (ct_stub t) (List.map IUse ks' ++ [IDel])). cbn [cs_threads cs_table cs_writes].
          rewrite lookup_insert. split; [reflexivity|]. split; [reflexivity|]. split; [reflexivity|]. right. left. exists (S n).
          assert (Hlt : (n < length kj)%nat). { destruct (decide (n < length kj)%nat); [assumption|]. rewrite drop_ge in Ed by lia. discriminate. }
          assert (Hk : kj !! n = Some k). { rewrite <- (Nat.add_0_r n), <- lookup_drop, Ed. reflexivity. }
          split; [lia|]. split; [|split; [exact Htab|]].
          -- cbn [ct_todo]. rewrite (drop_S _ _ _ Hk) in Ed. injection Ed as <-. reflexivity.
          -- unfold wr in *. cbn [cs_writes]. rewrite lookup_insert. cbn. rewrite Hw. symmetry. apply take_S_r. exact Hk.
        * apply Hframe; auto.
          intros i' it' Hne' Hi'. rewrite lookup_insert_ne; [reflexivity|]. pose proof (distinct_stub _ _ _ _ Hne' Hi' Hj) as H. cbn in H. congruence.
    - discriminate.
  Qed.

  Theorem cinv_run schedule : CInv (c_run by_gid (c_init ths) schedule).
  Proof.
    unfold c_run. generalize cinv_init. generalize (c_init ths). induction schedule as [|j l IH]; intros s Hs; [exact Hs|].
    cbn [fold_left]. apply IH. apply cinv_step. exact Hs.
  Qed.

  (* every interleaving: each invocation's writes went through its own transaction and nowhere else,
     no GetStub() returned nil, and an invocation that ran to its end wrote exactly what it writes alone *)
  Theorem isolation schedule i gid stub ks : ths !! i = Some (gid, stub, ks) ->
    let s := c_run by_gid (c_init ths) schedule in
    cs_nil s = [] /\ (exists n, wr s stub = take n ks) /\
    (forall t, cs_threads s !! i = Some t -> ct_todo t = [] -> wr s stub = ks).
  Proof.
    intros Hi s. destruct (cinv_run schedule) as (Hth & Hnil & _). fold s in Hth, Hnil.
    destruct (Hth _ _ Hi) as (t & Et & _ & _ & Hph). split; [exact Hnil|]. split.
    - destruct Hph as [[_ Hw]|[(n & _ & _ & _ & Hw)|[_ Hw]]].
      + exists 0%nat. rewrite take_0. exact Hw.
      + exists n. exact Hw.
      + exists (length ks). rewrite firstn_all. exact Hw.
    - intros t' Et' Hdone. rewrite Et in Et'. injection Et' as <-.
      destruct Hph as [[Hp _]|[(n & _ & Hp & _)|[_ Hw]]]; [| |exact Hw].
      + rewrite Hp in Hdone. discriminate.
      + rewrite Hp in Hdone. destruct (List.map IUse (drop n ks)); discriminate.
  Qed.
End EnvProofs.

(* the result of an invocation that ran to its end among others equals its result when run alone *)
Theorem same_as_alone ths schedule i gid stub ks solo_schedule t t1 :
  NoDup (List.map (fun it : N * N * list N => fst (fst it)) ths) -> NoDup (List.map (fun it : N * N * list N => snd (fst it)) ths) ->
  ths !! i = Some (gid, stub, ks) ->
  let s := c_run by_gid (c_init ths) schedule in
  let s1 := c_run by_gid (c_init [(gid, stub, ks)]) solo_schedule in
  cs_threads s !! i = Some t -> ct_todo t = [] -> cs_threads s1 !! 0%nat = Some t1 -> ct_todo t1 = [] ->
  wr s stub = wr s1 stub.
Proof.
  intros H1 H2 Hi s s1 Et Hd Et1 Hd1.
  destruct (isolation ths H1 H2 schedule i gid stub ks Hi) as (_ & _ & Hfin).
  assert (G1 : NoDup (List.map (fun it : N * N * list N => fst (fst it)) [(gid, stub, ks)])) by (cbn; apply NoDup_singleton).
  assert (G2 : NoDup (List.map (fun it : N * N * list N => snd (fst it)) [(gid, stub, ks)])) by (cbn; apply NoDup_singleton).
  destruct (isolation [(gid, stub, ks)] G1 G2 solo_schedule 0 gid stub ks eq_refl) as (_ & _ & Hfin1).
  transitivity ks; [apply (Hfin t Et Hd)|symmetry; apply (Hfin1 t1 Et1 Hd1)].
Qed.

(* the key must be unique per running invocation: with one shared key (e.g. a context remembered on the
   contract object) the first invocation's second write lands in the other transaction *)
Theorem shared_key_refuted :
  let s := c_run (fun _ => 0%N) (c_init [(1, 10, [5; 6]); (2, 20, [7])]%N) [0; 0; 1; 0]%nat in
  default [] (cs_writes s !! 10%N) = [5%N] /\ default [] (cs_writes s !! 20%N) = [6%N].
Proof. vm_compute. split; reflexivity. Qed.
