(* Lemmas about Model/Balance.v: pointwise characterisation of put/add/sub/move,
   non-negativity.                                                              *)
From Fnd Require Import Base.Prelude Model.Balance.
Local Open Scope Z_scope.

Lemma bget_bput (m : bals) k v k' : bget (bput m k v) k' = if decide (k' = k) then v else bget m k'.
Proof.
  unfold bget, bput. destruct (Z.eqb_spec v 0) as [->|Hv]; destruct (decide (k' = k)) as [->|Hne].
  - rewrite lookup_delete. reflexivity.
  - rewrite lookup_delete_ne by congruence. reflexivity.
  - rewrite lookup_insert. reflexivity.
  - rewrite lookup_insert_ne by congruence. reflexivity.
Qed.

Definition ind (b : bool) : Z := if b then 1 else 0.
Definition at_key (k k' : N * N * N) (a : Z) : Z := if decide (k' = k) then a else 0.

Lemma badd_spec m k a m' : badd m k a = Ok m' ->
  0 <= a /\ forall k', bget m' k' = bget m k' + at_key k k' a.
Proof.
  unfold badd. destruct (Z.ltb_spec a 0); [discriminate|]. intros [= <-]. split; [lia|].
  intros k'. rewrite bget_bput. unfold at_key. destruct (decide (k' = k)) as [->|]; lia.
Qed.

Lemma bsub_spec m k a m' : bsub m k a = Ok m' ->
  0 <= a /\ a <= bget m k /\ forall k', bget m' k' = bget m k' - at_key k k' a.
Proof.
  unfold bsub. destruct (Z.ltb_spec a 0); [discriminate|].
  destruct (Z.ltb_spec (bget m k) a); [discriminate|]. intros [= <-]. split; [lia|]. split; [lia|].
  intros k'. rewrite bget_bput. unfold at_key. destruct (decide (k' = k)) as [->|]; lia.
Qed.

Lemma bmove_spec m k1 k2 a m' : bmove m k1 k2 a = Ok m' ->
  0 <= a /\ a <= bget m k1 /\ forall k', bget m' k' = bget m k' - at_key k1 k' a + at_key k2 k' a.
Proof.
  unfold bmove, rbind. destruct (bsub m k1 a) as [m1|e] eqn:E1; [|discriminate].
  intros E2. apply bsub_spec in E1 as (H1 & H2 & H3). apply badd_spec in E2 as (_ & H4).
  split; [exact H1|]. split; [exact H2|]. intros k'. rewrite H4, H3. reflexivity.
Qed.

Lemma bmove_fails_iff m k1 k2 a : (exists e, bmove m k1 k2 a = Err e) <-> (a < 0 \/ bget m k1 < a).
Proof.
  unfold bmove, rbind, bsub, badd.
  destruct (Z.ltb_spec a 0); [split; [lia|eauto]|].
  destruct (Z.ltb_spec (bget m k1) a); [split; [lia|eauto]|].
  destruct (Z.ltb_spec a 0); [lia|]. split; [intros [e He]; discriminate|lia].
Qed.

(* all stored balances are non-negative *)
Definition nonneg (m : bals) : Prop := forall k, 0 <= bget m k.

Lemma nonneg_empty : nonneg ∅.
Proof. intros k. unfold bget. rewrite lookup_empty. cbn. lia. Qed.

Lemma badd_nonneg m k a m' : nonneg m -> badd m k a = Ok m' -> nonneg m'.
Proof.
  intros Hn E k'. apply badd_spec in E as [Ha Hs]. rewrite Hs. specialize (Hn k').
  unfold at_key. destruct (decide (k' = k)); lia.
Qed.
Lemma bsub_nonneg m k a m' : nonneg m -> bsub m k a = Ok m' -> nonneg m'.
Proof.
  intros Hn E k'. apply bsub_spec in E as (Ha & Hb & Hs). rewrite Hs. specialize (Hn k').
  unfold at_key. destruct (decide (k' = k)) as [->|]; lia.
Qed.
Lemma bmove_nonneg m k1 k2 a m' : nonneg m -> bmove m k1 k2 a = Ok m' -> nonneg m'.
Proof.
  unfold bmove, rbind. destruct (bsub m k1 a) as [m1|e] eqn:E1; [|discriminate].
  intros Hn E2. eapply badd_nonneg; [eapply bsub_nonneg; eassumption|exact E2].
Qed.

(* ---- sums of balances selected by a predicate on the key --------------------------- *)
From Fnd Require Import Base.Sum.
Definition bsum (P : N * N * N -> bool) (m : bals) : Z := msum (fun k v => if P k then v else 0) m.

Lemma bsum_bput P m k v : bsum P (bput m k v) = bsum P m - (if P k then bget m k else 0) + (if P k then v else 0).
Proof.
  unfold bsum, bput, bget. destruct (Z.eqb_spec v 0) as [->|Hv].
  - rewrite msum_delete'. destruct (m !! k); destruct (P k); cbn; lia.
  - rewrite msum_insert. destruct (m !! k); destruct (P k); cbn; lia.
Qed.
Lemma bsum_badd P m k a m' : badd m k a = Ok m' -> bsum P m' = bsum P m + (if P k then a else 0).
Proof.
  unfold badd. destruct (a <? 0); [discriminate|]. intros [= <-]. rewrite bsum_bput. destruct (P k); lia.
Qed.
Lemma bsum_bsub P m k a m' : bsub m k a = Ok m' -> bsum P m' = bsum P m - (if P k then a else 0).
Proof.
  unfold bsub. destruct (a <? 0); [discriminate|]. destruct (bget m k <? a); [discriminate|].
  intros [= <-]. rewrite bsum_bput. destruct (P k); lia.
Qed.
Lemma bget_badd m k a m' k' : badd m k a = Ok m' -> bget m' k' = bget m k' + at_key k k' a.
Proof. intros H. apply badd_spec in H as [_ H]. apply H. Qed.
Lemma bget_bsub m k a m' k' : bsub m k a = Ok m' -> bget m' k' = bget m k' - at_key k k' a.
Proof. intros H. apply bsub_spec in H as (_ & _ & H). apply H. Qed.
