(* Proofs about Model/Union.v (C06) *)
From Fnd Require Import Base.Prelude Base.Sum Model.Balance Model.Fee Model.Locks Model.CCTransfer Model.Swap Model.MultiSwap Model.Union
  Proofs.BalanceProofs Proofs.FeeProofs Proofs.CCTransferProofs Proofs.SwapProofs Proofs.MultiSwapProofs.
Local Open Scope Z_scope.

(* units of the channel's own token: spendable, locked, given out to other channels *)
Definition UP (k : N * N * N) : bool :=
  N.eqb (fst (fst k)) KTok || N.eqb (fst (fst k)) KTokLocked || N.eqb (fst (fst k)) KGiven.
Definition esc (me : N) (_ : N) (r : swaprec) : Z := if N.eqb (sw_sym r) me then sw_amt r else 0.
Definition mesc (me : N) (_ : N) (r : mrec) : Z := if N.eqb (mw_sym r) me then total (mw_assets r) else 0.
Definition units (me : N) (st : ustate) : Z :=
  bsum UP (us_bal st) + msum (esc me) (us_swaps st) + msum (mesc me) (us_mswaps st).

Lemma bmove_sum P b k1 k2 a b' : bmove b k1 k2 a = Ok b' ->
  bsum P b' = bsum P b - (if P k1 then a else 0) + (if P k2 then a else 0).
Proof.
  unfold bmove. destruct (bsub b k1 a) as [b1|] eqn:E1; cbn [rbind]; [|discriminate]. intros E2.
  rewrite (bsum_badd P _ _ _ _ E2), (bsum_bsub P _ _ _ _ E1). lia.
Qed.

Lemma transfer_fee_units env st b a s r b' : transfer_fee env st b a s r = Ok b' -> bsum UP b' = bsum UP b.
Proof.
  unfold transfer_fee. destruct (f_set (ts_fee st)), (ts_feeaddr st) as [fa|]; try discriminate;
    (destruct (_ && _); [discriminate|]); (destruct (calc_transfer_fee env st a s r) as [fc|]; cbn [rbind]; [|discriminate]);
    (destruct (fst fc <=? 0); [intros [= <-]; reflexivity|]); try discriminate;
    (destruct (N.eqb _ _); intros H; rewrite (bmove_sum UP _ _ _ _ _ H); cbn; lia).
Qed.

Lemma t_apply_units env st o st' : t_apply env st o = Ok st' ->
  bsum UP (ts_bal st') - ts_emission st' = bsum UP (ts_bal st) - ts_emission st.
Proof.
  destruct o as [s to a|s r a|s cur share floor cap|s addr|s deal cur r|s deal cur mn mx|s a cur|s a cur]; cbn [t_apply].
  - destruct (negb _); [discriminate|]. destruct (a <? 0); [discriminate|]. destruct (a =? 0); [discriminate|].
    destruct (badd _ _ _) as [b|] eqn:E; cbn [rbind]; [|discriminate]. intros [= <-]. cbn.
    rewrite (bsum_badd UP _ _ _ _ E). cbn. lia.
  - destruct (a <? 0); [discriminate|]. destruct (N.eqb s r); [discriminate|]. destruct (a =? 0); [discriminate|].
    destruct (bmove _ _ _ _) as [b1|] eqn:E1; cbn [rbind]; [|discriminate].
    destruct (transfer_fee _ _ _ _ _ _) as [b2|] eqn:E2; cbn [rbind]; [|discriminate]. intros [= <-]. cbn.
    rewrite (transfer_fee_units _ _ _ _ _ _ _ E2), (bmove_sum UP _ _ _ _ _ E1). cbn. lia.
  - destruct (_ || _); [discriminate|]. destruct (negb _); [discriminate|]. destruct (dec8 <? share); [discriminate|].
    destruct (_ && _); [discriminate|]. destruct (_ || _); [|discriminate]. intros [= <-]. reflexivity.
  - destruct (negb _); [discriminate|]. intros [= <-]. reflexivity.
  - destruct (r <? 0); [discriminate|]. destruct (negb _); [discriminate|]. destruct (r =? 0); [discriminate|].
    destruct (N.eqb _ _); [discriminate|]. intros [= <-]. reflexivity.
  - destruct (_ || _); [discriminate|]. destruct (negb _); [discriminate|]. destruct (_ && _); [discriminate|].
    destruct (set_limits _ _ _ _ _); [|discriminate]. intros [= <-]. reflexivity.
  - destruct (a <? 0); [discriminate|]. destruct (N.eqb _ _); [discriminate|]. destruct (a =? 0); [discriminate|].
    destruct (find_rate _ _ _) as [rt|]; [|discriminate]. destruct (negb _); [discriminate|].
    destruct (bmove (ts_bal st) _ _ _) as [b1|] eqn:E1; cbn [rbind]; [|discriminate].
    destruct (bmove b1 _ _ _) as [b2|] eqn:E2; cbn [rbind]; [|discriminate]. intros [= <-]. cbn.
    rewrite (bmove_sum UP _ _ _ _ _ E2), (bmove_sum UP _ _ _ _ _ E1). cbn. lia.
  - destruct (a <? 0); [discriminate|]. destruct (N.eqb _ _); [discriminate|]. destruct (a =? 0); [discriminate|].
    destruct (find_rate _ _ _) as [rt|]; [|discriminate]. destruct (negb _); [discriminate|].
    destruct (bmove (ts_bal st) _ _ _) as [b1|] eqn:E1; cbn [rbind]; [|discriminate].
    destruct (bmove b1 _ _ _) as [b2|] eqn:E2; cbn [rbind]; [|discriminate]. intros [= <-]. cbn.
    rewrite (bmove_sum UP _ _ _ _ _ E2), (bmove_sum UP _ _ _ _ _ E1). cbn. lia.
Qed.

Lemma l_apply_units admin st o st' : l_apply admin st o = Ok st' -> bsum UP (ls_bal st') = bsum UP (ls_bal st).
Proof.
  destruct o as [f s id a tk amt|f s id a tk amt]; cbn [l_apply].
  - destruct (negb _); [discriminate|]. destruct (_ || _); [discriminate|]. destruct (fam_locks st f !! id); [discriminate|].
    destruct (amt <=? 0); [discriminate|]. destruct (bmove _ _ _ _) as [b|] eqn:E; cbn [rbind]; [|discriminate].
    intros [= <-]. assert (Hb : ls_bal (set_locks st f b (<[id := LR a tk amt amt 0]> (fam_locks st f))) = b) by (destruct f; reflexivity).
    rewrite Hb, (bmove_sum UP _ _ _ _ _ E). destruct f; cbn; lia.
  - destruct (negb _); [discriminate|]. destruct (_ || _); [discriminate|]. destruct (fam_locks st f !! id) as [r|]; [|discriminate].
    destruct (l_cur r <? amt); [discriminate|]. destruct (bmove _ _ _ _) as [b|] eqn:E; cbn [rbind]; [|discriminate].
    intros [= <-]. match goal with |- bsum UP (ls_bal (set_locks st f b ?l)) = _ => assert (Hb : ls_bal (set_locks st f b l) = b) by (destruct f; reflexivity) end.
    rewrite Hb, (bmove_sum UP _ _ _ _ _ E). destruct f; cbn; lia.
Qed.

Lemma change_balance_units k b r b' : change_balance k b r = Ok b' -> bsum UP b' = bsum UP b.
Proof.
  unfold change_balance. destruct k, (cc_fwd r);
    repeat match goal with
    | |- context [rbind (bsub ?m ?key ?a) _] => let E := fresh "E" in destruct (bsub m key a) eqn:E; cbn [rbind]; [|discriminate]
    | |- context [rbind (badd ?m ?key ?a) _] => let E := fresh "E" in destruct (badd m key a) eqn:E; cbn [rbind]; [|discriminate]
    end; intros H;
    repeat match goal with
    | H : bsub _ _ _ = Ok _ |- _ => rewrite (bsum_bsub UP _ _ _ _ H); clear H
    | H : badd _ _ _ = Ok _ |- _ => rewrite (bsum_badd UP _ _ _ _ H); clear H
    end; cbn; lia.
Qed.

Lemma cc_apply_units c o c' : cc_apply c o = Ok c' -> bsum UP (ch_bal c') = bsum UP (ch_bal c).
Proof.
  assert (Hcf : forall id to user sym grp amt v, create_from c id to user sym grp amt v = Ok c' -> bsum UP (ch_bal c') = bsum UP (ch_bal c)).
  { intros id to user sym grp amt v. unfold create_from. destruct (amt <? 0); [discriminate|]. destruct (_ || _); [discriminate|].
    destruct (N.eqb _ _); [discriminate|]. destruct (_ && _); [discriminate|]. destruct (ch_from c !! id); [discriminate|].
    destruct (change_balance _ _ _) as [b|] eqn:E; cbn [rbind]; [|discriminate]. intros [= <-]. cbn. apply (change_balance_units _ _ _ _ E). }
  destruct o as [s id to sym grp amt v|s id to user sym grp amt v|id r v|id|id|id|id]; cbn [cc_apply].
  - apply Hcf.
  - destruct (amt <? 0); [discriminate|]. destruct (_ || _); [discriminate|]. destruct (N.eqb s user); [discriminate|]. apply Hcf.
  - destruct (_ || _); [discriminate|]. destruct (ch_to c !! id); [discriminate|]. destruct (_ && _); [discriminate|].
    destruct (N.eqb _ _); [discriminate|]. destruct (_ && _); [discriminate|]. destruct (negb _); [discriminate|].
    destruct (change_balance _ _ _) as [b|] eqn:E; cbn [rbind]; [|discriminate]. intros [= <-]. cbn. apply (change_balance_units _ _ _ _ E).
  - destruct (ch_from c !! id) as [r|]; [|discriminate]. destruct (cc_commit r); [discriminate|].
    destruct (change_balance _ _ _) as [b|] eqn:E; cbn [rbind]; [|discriminate]. intros [= <-]. cbn. apply (change_balance_units _ _ _ _ E).
  - destruct (ch_from c !! id) as [r|]; [|discriminate]. destruct (cc_commit r); [discriminate|]. intros [= <-]. reflexivity.
  - destruct (ch_from c !! id) as [r|]; [|discriminate]. destruct (cc_commit r); [|discriminate]. intros [= <-]. reflexivity.
  - destruct (ch_to c !! id) as [r|]; [|discriminate]. destruct (cc_commit r); [|discriminate]. intros [= <-]. reflexivity.
Qed.

(* ---- swaps --------------------------------------------------------------------------------- *)
Definition s_honest (c : schan) (o : sop) : bool :=
  match o with
  | SAnswer _ r => negb (N.eqb (sw_from r) (sc_me c)) && N.eqb (sw_to r) (sc_me c) && negb (N.eqb (sw_owner r) 0) &&
                   (sw_sym r <? 1000)%N && (0 <=? sw_amt r)
  | SBegin s _ _ _ _ _ _ => negb (N.eqb s 0)
  | SRobotDone id _ => match sc_swaps c !! id with Some r => negb (N.eqb (sw_creator r) 0) | None => true end
  | _ => true
  end.

Lemma s_apply_units c o c' ev : wfchan c -> s_honest c o = true -> s_apply c o = Ok (c', ev) ->
  wfchan c' /\
  bsum UP (sc_bal c') + msum (esc (sc_me c)) (sc_swaps c') = bsum UP (sc_bal c) + msum (esc (sc_me c)) (sc_swaps c).
Proof.
  intros Hwf Hh Ha. destruct o as [s id sym grp to amt h|id|id r|id key|id key].
  - destruct (begin_effect _ _ _ _ _ _ _ _ _ _ Ha) as (Hn & Hsw & Hme & Hs1 & Ha0 & Hsym & Hb).
    cbn in Hh. apply negb_true_iff, N.eqb_neq in Hh. split.
    + eapply wf_insert; eauto. unfold wfrec. cbn. destruct (N.eqb_spec s 0); [contradiction|]. repeat split; auto.
    + rewrite Hsw, msum_insert_fresh by exact Hn. rewrite (bchg_sum _ _ _ UP Hb). unfold esc, begin_key. cbn [sw_sym sw_amt chgP].
      destruct (N.eqb sym (sc_me c)); cbn; lia.
  - destruct (cancel_effect _ _ _ _ Ha) as (r & Hr & Hsw & Hme & Hb). split; [eapply wf_delete; eauto|].
    rewrite Hsw, (msum_delete (esc (sc_me c)) _ _ _ Hr), (bchg_sum _ _ _ UP Hb).
    destruct (Hwf _ _ Hr) as (_ & _ & Ho & Hx). unfold esc, cancel_chg, own, direct, reverse.
    destruct (N.eqb_spec (sw_creator r) 0) as [E0|E0].
    + destruct Hx as (Hto & Hfrom & Hdr). rewrite E0. destruct (N.eqb_spec 0 (sw_owner r)); [congruence|]. cbn [andb].
      unfold direct, reverse in Hdr. rewrite Hto.
      destruct (N.eqb_spec (sw_sym r) (sc_me c)) as [E|E]; cbn; lia.
    + destruct Hx as (Hco & Hfrom & Hsym). rewrite Hco, N.eqb_refl, Hfrom. cbn [andb].
      destruct (N.eqb_spec (sw_sym r) (sc_me c)) as [E|E]; cbn [chgP].
      * cbn. lia.
      * destruct (N.eqb (sw_sym r) (sw_to r)); cbn; lia.
  - cbn in Hh. repeat (apply andb_true_iff in Hh as [Hh ?]). apply negb_true_iff, N.eqb_neq in Hh.
    match goal with H : N.eqb (sw_to r) _ = true |- _ => apply N.eqb_eq in H; rename H into Hto end.
    match goal with H : negb (N.eqb (sw_owner r) 0) = true |- _ => apply negb_true_iff, N.eqb_neq in H; rename H into Hown end.
    match goal with H : N.ltb _ _ = true |- _ => apply N.ltb_lt in H; rename H into Hs1 end.
    match goal with H : Z.leb _ _ = true |- _ => apply Z.leb_le in H; rename H into Ha0 end.
    destruct (answer_effect _ _ _ _ _ Ha) as (Hn & Hsw & Hme & Hdr & Hb). split.
    + eapply wf_insert; eauto. unfold wfrec. cbn. repeat split; auto.
    + rewrite Hsw, msum_insert_fresh by exact Hn. rewrite (bchg_sum _ _ _ UP Hb). unfold esc, answer_chg. cbn [copy_of sw_sym sw_amt].
      unfold direct, reverse in *. destruct (N.eqb_spec (sw_sym r) (sw_from r)) as [E|E]; cbn [chgP].
      * destruct (N.eqb_spec (sw_sym r) (sc_me c)); [congruence|]. lia.
      * destruct Hdr as [?|Hrev]; [discriminate|]. apply N.eqb_eq in Hrev. rewrite Hrev, Hto, N.eqb_refl. cbn. lia.
  - cbn in Hh. destruct (robotdone_effect _ _ _ _ _ Ha) as (r & Hr & Hk & Hsw & Hme & Hb). rewrite Hr in Hh.
    apply negb_true_iff, N.eqb_neq in Hh. split; [eapply wf_delete; eauto|].
    rewrite Hsw, (msum_delete (esc (sc_me c)) _ _ _ Hr), (bchg_sum _ _ _ UP Hb).
    destruct (Hwf _ _ Hr) as (_ & _ & _ & Hx). destruct (N.eqb_spec (sw_creator r) 0); [contradiction|]. destruct Hx as (_ & Hfrom & _).
    unfold esc, robotdone_chg, direct. rewrite Hfrom. destruct (N.eqb (sw_sym r) (sc_me c)); cbn; lia.
  - destruct (userdone_effect _ _ _ _ _ Ha) as (r & Hr & Hco & Hk & Hsw & Hme & Hb). split; [eapply wf_delete; eauto|].
    rewrite Hsw, (msum_delete (esc (sc_me c)) _ _ _ Hr), (bchg_sum _ _ _ UP Hb).
    destruct (Hwf _ _ Hr) as (_ & _ & _ & Hx). destruct (N.eqb_spec (sw_creator r) 0) as [E0|E0].
    + destruct Hx as (Hto & Hfrom & Hdr). unfold esc, userdone_chg. unfold direct, reverse in *.
      destruct (N.eqb_spec (sw_sym r) (sw_from r)) as [E|E]; cbn [chgP].
      * destruct (N.eqb_spec (sw_sym r) (sc_me c)); [congruence|]. cbn. lia.
      * destruct Hdr as [?|Hrev]; [discriminate|]. apply N.eqb_eq in Hrev. rewrite Hrev, Hto, N.eqb_refl. cbn. lia.
    + destruct Hx as (Hx & _). contradiction.
Qed.

(* ---- multi-swaps --------------------------------------------------------------------------- *)
Lemma up_tok u l : asum (fun a => if UP (tok_key u a) then a_amt a else 0) l = total l.
Proof. unfold total. apply asum_ext. reflexivity. Qed.
Lemma up_giv x l : asum (fun a => if UP (giv_key x a) then a_amt a else 0) l = total l.
Proof. unfold total. apply asum_ext. reflexivity. Qed.
Lemma up_alw u l : asum (fun a => if UP (alw_key u a) then a_amt a else 0) l = 0.
Proof. transitivity (asum (fun _ => 0) l); [|apply asum_zero]. apply asum_ext. reflexivity. Qed.

Definition m_honest (c : mchan) (o : mop) : bool :=
  match o with
  | MAnswer _ _ r => negb (N.eqb (mw_from r) (mc_me c)) && N.eqb (mw_to r) (mc_me c) && negb (N.eqb (mw_owner r) 0) &&
                     (mw_sym r <? 1000)%N && forallb (fun a => N.eqb (a_sym a) (mw_sym r) && (0 <=? a_amt a)) (mw_assets r)
  | MBegin _ s _ sym assets _ _ => negb (N.eqb s 0) && forallb (fun a => N.eqb (a_sym a) sym) assets
  | MRobotDone id _ => match mc_swaps c !! id with Some r => negb (N.eqb (mw_creator r) 0) | None => true end
  | _ => true
  end.

Lemma m_apply_units c o c' ev : mwfchan c -> m_honest c o = true -> m_apply c o = Ok (c', ev) ->
  mwfchan c' /\
  bsum UP (mc_bal c') + msum (mesc (mc_me c)) (mc_swaps c') = bsum UP (mc_bal c) + msum (mesc (mc_me c)) (mc_swaps c).
Proof.
  intros Hwf Hh Ha. destruct o as [now s id sym assets to h|now sender id|now id r|id key|id key].
  - destruct (m_begin_effect _ _ _ _ _ _ _ _ _ _ Ha) as (Hn & Hsw & Hme & Hs1 & Hall & Hsym & Hb).
    cbn in Hh. apply andb_true_iff in Hh as [Hh Hfa]. apply negb_true_iff, N.eqb_neq in Hh. split.
    + eapply mwf_insert; eauto. unfold mwfrec. cbn. destruct (N.eqb_spec s 0); [contradiction|]. repeat split; auto.
      apply List.Forall_forall. intros a Ha'. rewrite forallb_forall in Hfa. rewrite List.Forall_forall in Hall.
      split; [apply N.eqb_eq, Hfa, Ha'|apply (Hall a Ha')].
    + rewrite Hsw, msum_insert_fresh by exact Hn. rewrite (mchg_sum _ _ _ UP Hb). unfold mesc, begin_chg. cbn [mw_sym mw_assets].
      destruct (N.eqb sym (mc_me c)); cbn [mchgP]; rewrite ?up_tok, ?up_alw; lia.
  - destruct (m_cancel_effect _ _ _ _ _ _ Ha) as (r & Hr & _ & _ & Hsw & Hme & Hb). split; [eapply mwf_delete; eauto|].
    rewrite Hsw, (msum_delete (mesc (mc_me c)) _ _ _ Hr), (mchg_sum _ _ _ UP Hb).
    destruct (Hwf _ _ Hr) as (_ & _ & Ho & Hx). unfold mesc, mcancel_chg, mown, mdirect, mreverse.
    destruct (N.eqb_spec (mw_creator r) 0) as [E0|E0].
    + destruct Hx as (Hto & Hfrom & Hdr). rewrite E0. destruct (N.eqb_spec 0 (mw_owner r)); [congruence|]. cbn [andb].
      unfold mdirect, mreverse in Hdr. rewrite Hto.
      destruct (N.eqb_spec (mw_sym r) (mc_me c)) as [E|E]; cbn [mchgP N.eqb andb]; rewrite ?up_giv; lia.
    + destruct Hx as (Hco & Hfrom & Hsym). rewrite Hco, N.eqb_refl, Hfrom. cbn [andb].
      destruct (N.eqb_spec (mw_sym r) (mc_me c)) as [E|E]; cbn [mchgP].
      * rewrite up_tok. lia.
      * destruct (N.eqb (mw_sym r) (mw_to r)); cbn [mchgP]; rewrite ?up_alw; lia.
  - cbn in Hh. repeat (apply andb_true_iff in Hh as [Hh ?]). apply negb_true_iff, N.eqb_neq in Hh.
    match goal with H : N.eqb (mw_to r) _ = true |- _ => apply N.eqb_eq in H; rename H into Hto end.
    match goal with H : negb (N.eqb (mw_owner r) 0) = true |- _ => apply negb_true_iff, N.eqb_neq in H; rename H into Hown end.
    match goal with H : N.ltb _ _ = true |- _ => apply N.ltb_lt in H; rename H into Hs1 end.
    match goal with H : forallb _ _ = true |- _ => rename H into Hfa end.
    destruct (m_answer_effect _ _ _ _ _ _ Ha) as (Hn & Hsw & Hme & Hdr & Hb). split.
    + eapply mwf_insert; eauto. unfold mwfrec. cbn. repeat split; auto.
      apply List.Forall_forall. intros a Ha'. rewrite forallb_forall in Hfa. specialize (Hfa a Ha').
      apply andb_true_iff in Hfa as [H1 H2]. split; [apply N.eqb_eq, H1|apply Z.leb_le, H2].
    + rewrite Hsw, msum_insert_fresh by exact Hn. rewrite (mchg_sum _ _ _ UP Hb). unfold mesc, manswer_chg. cbn [mcopy mw_sym mw_assets].
      unfold mdirect, mreverse in *. destruct (N.eqb_spec (mw_sym r) (mw_from r)) as [E|E]; cbn [mchgP].
      * destruct (N.eqb_spec (mw_sym r) (mc_me c)); [congruence|]. lia.
      * destruct Hdr as [?|Hrev]; [discriminate|]. apply N.eqb_eq in Hrev. rewrite Hrev, Hto, N.eqb_refl, up_giv. lia.
  - cbn in Hh. destruct (m_robotdone_effect _ _ _ _ _ Ha) as (r & Hr & Hk & Hsw & Hme & Hb). rewrite Hr in Hh.
    apply negb_true_iff, N.eqb_neq in Hh. split; [eapply mwf_delete; eauto|].
    rewrite Hsw, (msum_delete (mesc (mc_me c)) _ _ _ Hr), (mchg_sum _ _ _ UP Hb).
    destruct (Hwf _ _ Hr) as (_ & _ & _ & Hx). destruct (N.eqb_spec (mw_creator r) 0); [contradiction|]. destruct Hx as (_ & Hfrom & _).
    unfold mesc, mrobotdone_chg, mdirect. rewrite Hfrom. destruct (N.eqb (mw_sym r) (mc_me c)); cbn [mchgP]; rewrite ?up_giv; lia.
  - destruct (m_userdone_effect _ _ _ _ _ Ha) as (r & Hr & Hco & Hk & Hsw & Hme & Hb). split; [eapply mwf_delete; eauto|].
    rewrite Hsw, (msum_delete (mesc (mc_me c)) _ _ _ Hr), (mchg_sum _ _ _ UP Hb).
    destruct (Hwf _ _ Hr) as (_ & _ & _ & Hx). destruct (N.eqb_spec (mw_creator r) 0) as [E0|E0].
    + destruct Hx as (Hto & Hfrom & Hdr). unfold mesc, muserdone_chg. unfold mdirect, mreverse in *.
      destruct (N.eqb_spec (mw_sym r) (mw_from r)) as [E|E]; cbn [mchgP].
      * destruct (N.eqb_spec (mw_sym r) (mc_me c)); [congruence|]. rewrite up_alw. lia.
      * destruct Hdr as [?|Hrev]; [discriminate|]. apply N.eqb_eq in Hrev. rewrite Hrev, Hto, N.eqb_refl, up_tok. lia.
    + destruct Hx as (Hx & _). contradiction.
Qed.

(* ---- no balance ever negative -------------------------------------------------------------- *)
Lemma change_balance_nonneg k b r b' : nonneg b -> change_balance k b r = Ok b' -> nonneg b'.
Proof.
  intros Hn. unfold change_balance. destruct k, (cc_fwd r);
    repeat match goal with
    | |- context [rbind (bsub ?m ?key ?a) _] => let E := fresh "E" in destruct (bsub m key a) eqn:E; cbn [rbind]; [|discriminate]
    | |- context [rbind (badd ?m ?key ?a) _] => let E := fresh "E" in destruct (badd m key a) eqn:E; cbn [rbind]; [|discriminate]
    end; intros H; eauto using badd_nonneg, bsub_nonneg.
Qed.
Lemma cc_apply_nonneg c o c' : nonneg (ch_bal c) -> cc_apply c o = Ok c' -> nonneg (ch_bal c').
Proof.
  intros Hn.
  assert (Hcf : forall id to user sym grp amt v, create_from c id to user sym grp amt v = Ok c' -> nonneg (ch_bal c')).
  { intros id to user sym grp amt v. unfold create_from. destruct (amt <? 0); [discriminate|]. destruct (_ || _); [discriminate|].
    destruct (N.eqb _ _); [discriminate|]. destruct (_ && _); [discriminate|]. destruct (ch_from c !! id); [discriminate|].
    destruct (change_balance _ _ _) as [b|] eqn:E; cbn [rbind]; [|discriminate]. intros [= <-]. cbn. apply (change_balance_nonneg _ _ _ _ Hn E). }
  destruct o as [s id to sym grp amt v|s id to user sym grp amt v|id r v|id|id|id|id]; cbn [cc_apply].
  - apply Hcf.
  - destruct (amt <? 0); [discriminate|]. destruct (_ || _); [discriminate|]. destruct (N.eqb s user); [discriminate|]. apply Hcf.
  - destruct (_ || _); [discriminate|]. destruct (ch_to c !! id); [discriminate|]. destruct (_ && _); [discriminate|].
    destruct (N.eqb _ _); [discriminate|]. destruct (_ && _); [discriminate|]. destruct (negb _); [discriminate|].
    destruct (change_balance _ _ _) as [b|] eqn:E; cbn [rbind]; [|discriminate]. intros [= <-]. cbn. apply (change_balance_nonneg _ _ _ _ Hn E).
  - destruct (ch_from c !! id) as [r|]; [|discriminate]. destruct (cc_commit r); [discriminate|].
    destruct (change_balance _ _ _) as [b|] eqn:E; cbn [rbind]; [|discriminate]. intros [= <-]. cbn. apply (change_balance_nonneg _ _ _ _ Hn E).
  - destruct (ch_from c !! id) as [r|]; [|discriminate]. destruct (cc_commit r); [discriminate|]. intros [= <-]. exact Hn.
  - destruct (ch_from c !! id) as [r|]; [|discriminate]. destruct (cc_commit r); [|discriminate]. intros [= <-]. exact Hn.
  - destruct (ch_to c !! id) as [r|]; [|discriminate]. destruct (cc_commit r); [|discriminate]. intros [= <-]. exact Hn.
Qed.
Lemma l_apply_nonneg admin st o st' : nonneg (ls_bal st) -> l_apply admin st o = Ok st' -> nonneg (ls_bal st').
Proof.
  intros Hn. destruct o as [f s id a tk amt|f s id a tk amt]; cbn [l_apply].
  - destruct (negb _); [discriminate|]. destruct (_ || _); [discriminate|]. destruct (fam_locks st f !! id); [discriminate|].
    destruct (amt <=? 0); [discriminate|]. destruct (bmove _ _ _ _) as [b|] eqn:E; cbn [rbind]; [|discriminate].
    intros [= <-]. destruct f; cbn; apply (bmove_nonneg _ _ _ _ _ Hn E).
  - destruct (negb _); [discriminate|]. destruct (_ || _); [discriminate|]. destruct (fam_locks st f !! id) as [r|]; [|discriminate].
    destruct (l_cur r <? amt); [discriminate|]. destruct (bmove _ _ _ _) as [b|] eqn:E; cbn [rbind]; [|discriminate].
    intros [= <-]. destruct f; cbn; apply (bmove_nonneg _ _ _ _ _ Hn E).
Qed.
Lemma bchg_nonneg b ch b' : nonneg b -> bchg_ok b ch b' -> nonneg b'.
Proof. intros Hn. destruct ch; cbn; [intros ->; exact Hn|apply badd_nonneg, Hn|apply bsub_nonneg, Hn]. Qed.
Lemma add_all_nonneg key l : forall b b', nonneg b -> add_all b key l = Ok b' -> nonneg b'.
Proof.
  induction l as [|a l IH]; intros b b' Hn; cbn [add_all]; [intros [= <-]; exact Hn|].
  destruct (badd b (key a) (a_amt a)) as [b1|] eqn:E; cbn [rbind]; [|discriminate]. apply IH. apply (badd_nonneg _ _ _ _ Hn E).
Qed.
Lemma sub_all_nonneg key l : forall b b', nonneg b -> sub_all b key l = Ok b' -> nonneg b'.
Proof.
  induction l as [|a l IH]; intros b b' Hn; cbn [sub_all]; [intros [= <-]; exact Hn|].
  destruct (bsub b (key a) (a_amt a)) as [b1|] eqn:E; cbn [rbind]; [|discriminate]. apply IH. apply (bsub_nonneg _ _ _ _ Hn E).
Qed.
Lemma mchg_nonneg b ch b' : nonneg b -> mchg_ok b ch b' -> nonneg b'.
Proof. intros Hn. destruct ch; cbn; [intros ->; exact Hn|apply add_all_nonneg, Hn|apply sub_all_nonneg, Hn]. Qed.

Lemma s_apply_nonneg c o c' ev : nonneg (sc_bal c) -> s_apply c o = Ok (c', ev) -> nonneg (sc_bal c').
Proof.
  intros Hn Ha. destruct o as [s id sym grp to amt h|id|id r|id key|id key].
  - destruct (begin_effect _ _ _ _ _ _ _ _ _ _ Ha) as (_ & _ & _ & _ & _ & _ & Hb). eapply bchg_nonneg; eauto.
  - destruct (cancel_effect _ _ _ _ Ha) as (r & _ & _ & _ & Hb). eapply bchg_nonneg; eauto.
  - destruct (answer_effect _ _ _ _ _ Ha) as (_ & _ & _ & _ & Hb). eapply bchg_nonneg; eauto.
  - destruct (robotdone_effect _ _ _ _ _ Ha) as (r & _ & _ & _ & _ & Hb). eapply bchg_nonneg; eauto.
  - destruct (userdone_effect _ _ _ _ _ Ha) as (r & _ & _ & _ & _ & _ & Hb). eapply bchg_nonneg; eauto.
Qed.
Lemma m_apply_nonneg c o c' ev : nonneg (mc_bal c) -> m_apply c o = Ok (c', ev) -> nonneg (mc_bal c').
Proof.
  intros Hn Ha. destruct o as [now s id sym assets to h|now sender id|now id r|id key|id key].
  - destruct (m_begin_effect _ _ _ _ _ _ _ _ _ _ Ha) as (_ & _ & _ & _ & _ & _ & Hb). eapply mchg_nonneg; eauto.
  - destruct (m_cancel_effect _ _ _ _ _ _ Ha) as (r & _ & _ & _ & _ & _ & Hb). eapply mchg_nonneg; eauto.
  - destruct (m_answer_effect _ _ _ _ _ _ Ha) as (_ & _ & _ & _ & Hb). eapply mchg_nonneg; eauto.
  - destruct (m_robotdone_effect _ _ _ _ _ Ha) as (r & _ & _ & _ & _ & Hb). eapply mchg_nonneg; eauto.
  - destruct (m_userdone_effect _ _ _ _ _ Ha) as (r & _ & _ & _ & _ & _ & Hb). eapply mchg_nonneg; eauto.
Qed.

(* ---- the union ----------------------------------------------------------------------------- *)
Record UInv (env : uenv) (st : ustate) : Prop := {
  ui_nn : nonneg (us_bal st);
  ui_ws : forall id r, us_swaps st !! id = Some r -> wfrec (ue_me env) r;
  ui_wm : forall id r, us_mswaps st !! id = Some r -> mwfrec (ue_me env) r;
  ui_units : units (ue_me env) st = us_emission st }.

Theorem u_apply_inv env st o st' ev : honest (ue_me env) st o = true -> UInv env st -> u_apply env st o = Ok (st', ev) -> UInv env st'.
Proof.
  intros Hh [Hn Hws Hwm Hu]. unfold units in Hu.
  destruct o as [o|s a|s to grp a|o|o|o|o|s kind from to tk a]; cbn [u_apply].
  - destruct (t_apply _ _ o) as [t|] eqn:E; cbn [rbind]; [|discriminate]. intros [= <- <-].
    pose proof (t_apply_units _ _ _ _ E) as Hd. cbn in Hd. split; cbn; auto.
    + apply (apply_nonneg (ue_tenv env) (u_tok st) o t Hn E).
    + unfold units. cbn. lia.
  - destruct (bsub _ _ _) as [b|] eqn:E; cbn [rbind]; [|discriminate]. destruct (us_emission st <? a); [discriminate|].
    intros [= <- <-]. split; cbn; auto.
    + apply (bsub_nonneg _ _ _ _ Hn E).
    + unfold units. cbn. rewrite (bsum_bsub UP _ _ _ _ E). cbn. lia.
  - destruct (negb _); [discriminate|]. destruct (a <=? 0); [discriminate|].
    destruct (badd _ _ _) as [b|] eqn:E; cbn [rbind]; [|discriminate]. intros [= <- <-]. split; cbn; auto.
    + apply (badd_nonneg _ _ _ _ Hn E).
    + unfold units. cbn. rewrite (bsum_badd UP _ _ _ _ E). cbn. lia.
  - destruct (l_apply _ _ o) as [l|] eqn:E; cbn [rbind]; [|discriminate]. intros [= <- <-].
    pose proof (l_apply_units _ _ _ _ E) as Hd. cbn in Hd. split; cbn; auto.
    + apply (l_apply_nonneg (ue_admin env) (LS (us_bal st) (us_tl st) (us_al st)) o l Hn E).
    + unfold units. cbn. lia.
  - destruct (cc_apply _ o) as [c|] eqn:E; cbn [rbind]; [|discriminate]. intros [= <- <-].
    pose proof (cc_apply_units _ _ _ E) as Hd. cbn in Hd. split; cbn; auto.
    + apply (cc_apply_nonneg (Chan (ue_me env) (ue_admin env) (us_bal st) (us_from st) (us_to st)) o c Hn E).
    + unfold units. cbn. lia.
  - destruct (s_apply _ o) as [[c ev']|] eqn:E; [|discriminate]. intros [= <- <-].
    assert (Hh' : s_honest (SChan (ue_me env) (us_bal st) (us_swaps st)) o = true) by (destruct o; exact Hh).
    destruct (s_apply_units (SChan (ue_me env) (us_bal st) (us_swaps st)) o c ev' Hws Hh' E) as (Hw' & Hd). cbn in Hd.
    assert (Hme : sc_me c = ue_me env).
    { destruct o.
      - destruct (begin_effect _ _ _ _ _ _ _ _ _ _ E) as (_ & _ & H & _); exact H.
      - destruct (cancel_effect _ _ _ _ E) as (r & _ & _ & H & _); exact H.
      - destruct (answer_effect _ _ _ _ _ E) as (_ & _ & H & _); exact H.
      - destruct (robotdone_effect _ _ _ _ _ E) as (r & _ & _ & _ & H & _); exact H.
      - destruct (userdone_effect _ _ _ _ _ E) as (r & _ & _ & _ & _ & H & _); exact H. }
    split; cbn; auto.
    + apply (s_apply_nonneg (SChan (ue_me env) (us_bal st) (us_swaps st)) o c ev' Hn E).
    + intros id r Hr. rewrite <- Hme. apply (Hw' _ _ Hr).
    + unfold units. cbn. lia.
  - destruct (m_apply _ o) as [[c ev']|] eqn:E; [|discriminate]. intros [= <- <-].
    assert (Hh' : m_honest (MChan (ue_me env) (us_bal st) (us_mswaps st)) o = true) by (destruct o; exact Hh).
    destruct (m_apply_units (MChan (ue_me env) (us_bal st) (us_mswaps st)) o c ev' Hwm Hh' E) as (Hw' & Hd). cbn in Hd.
    assert (Hme : mc_me c = ue_me env).
    { destruct o.
      - destruct (m_begin_effect _ _ _ _ _ _ _ _ _ _ E) as (_ & _ & H & _); exact H.
      - destruct (m_cancel_effect _ _ _ _ _ _ E) as (r & _ & _ & _ & _ & H & _); exact H.
      - destruct (m_answer_effect _ _ _ _ _ _ E) as (_ & _ & H & _); exact H.
      - destruct (m_robotdone_effect _ _ _ _ _ E) as (r & _ & _ & _ & H & _); exact H.
      - destruct (m_userdone_effect _ _ _ _ _ E) as (r & _ & _ & _ & _ & H & _); exact H. }
    split; cbn; auto.
    + apply (m_apply_nonneg (MChan (ue_me env) (us_bal st) (us_mswaps st)) o c ev' Hn E).
    + intros id r Hr. rewrite <- Hme. apply (Hw' _ _ Hr).
    + unfold units. cbn. lia.
  - destruct (_ || _); [discriminate|]. destruct (N.eqb from to); [discriminate|]. destruct (a <=? 0); [discriminate|].
    destruct (bmove _ _ _ _) as [b|] eqn:E; cbn [rbind]; [|discriminate]. intros [= <- <-]. split; cbn; auto.
    + apply (bmove_nonneg _ _ _ _ _ Hn E).
    + unfold units. cbn. rewrite (bmove_sum UP _ _ _ _ _ E).
      assert (Hk : UP (kind, from, tk) = UP (kind, to, tk)) by reflexivity. rewrite Hk. destruct (UP (kind, to, tk)); lia.
Qed.

Fixpoint all_honest (env : uenv) (st : ustate) (os : list uop) : bool :=
  match os with [] => true | o :: r => honest (ue_me env) st o && all_honest env (fst (fst (u_step env st o))) r end.

Theorem u_run_inv env os : forall st, UInv env st -> all_honest env st os = true -> UInv env (u_run env st os).
Proof.
  induction os as [|o os IH]; intros st HI Hh; [exact HI|]. cbn [all_honest] in Hh. apply andb_true_iff in Hh as [H1 H2].
  cbn [u_run fold_left]. apply IH; [|exact H2]. unfold u_step. destruct (u_apply env st o) as [[st' ev]|] eqn:E; [|exact HI].
  cbn. eapply u_apply_inv; eauto.
Qed.

Lemma uinv0 env : UInv env us0.
Proof.
  split; cbn.
  - apply nonneg_empty.
  - intros id r. rewrite lookup_empty. discriminate.
  - intros id r. rewrite lookup_empty. discriminate.
  - unfold units. cbn. unfold bsum. rewrite !msum_empty. reflexivity.
Qed.

(* the units of the token held in its channel always equal the recorded total emission, and no
   balance is negative - after any sequence of operations of any kinds *)
Theorem units_equal_emission env os : all_honest env us0 os = true ->
  let st := u_run env us0 os in units (ue_me env) st = us_emission st /\ nonneg (us_bal st).
Proof. intros Hh st. destruct (u_run_inv env os us0 (uinv0 env) Hh) as [H1 _ _ H4]. split; assumption. Qed.

Theorem u_rejected_unchanged env st o e : snd (fst (u_step env st o)) = Some e -> fst (fst (u_step env st o)) = st.
Proof. unfold u_step. destruct (u_apply env st o) as [[st' ev]|]; [discriminate|reflexivity]. Qed.
