(* Proofs about Model/Nonce.v: the 50-second window machine decides exactly as a machine
   that remembers every nonce ever accepted.                                          *)
From Fnd Require Import Base.Prelude Model.Nonce.
Local Open Scope N_scope.

Definition R (w h : list N) : Prop :=
  StronglySorted N.lt w /\ forall x, In x w <-> (In x h /\ maxl h - x <= ttl).

Lemma maxl_ge h x : In x h -> x <= maxl h.
Proof. induction h as [|y h IH]; cbn; [tauto|]. intros [->|H]; [lia|]. specialize (IH H). lia. Qed.

Lemma maxl_in h : h <> [] -> In (maxl h) h.
Proof.
  induction h as [|y h IH]; [congruence|]. intros _. cbn [maxl].
  destruct h as [|z h'].
  - cbn. left. lia.
  - destruct (N.max_spec y (maxl (z :: h'))) as [[_ ->]|[_ ->]].
    + right. apply IH. congruence.
    + left. reflexivity.
Qed.

Lemma memN_In n h : memN n h = true <-> In n h.
Proof.
  induction h as [|x h IH]; cbn; [split; [discriminate|tauto]|].
  rewrite orb_true_iff, IH, N.eqb_eq. tauto.
Qed.

Lemma last_cons2 (a b : N) l d : List.last (a :: b :: l) d = List.last (b :: l) d.
Proof. reflexivity. Qed.

Lemma last_in (w : list N) d : w <> [] -> In (List.last w d) w.
Proof.
  induction w as [|a w IH]; [congruence|]. intros _. destruct w as [|b w'].
  - left; reflexivity.
  - rewrite last_cons2. right. apply IH. congruence.
Qed.

Lemma sorted_last_max w d : StronglySorted N.lt w -> forall x, In x w -> x <= List.last w d.
Proof.
  induction 1 as [|y w Hs IH Hall]; [intros x []|].
  intros x [<-|Hx].
  - destruct w as [|z w']; [cbn; lia|]. rewrite last_cons2.
    rewrite Forall_forall in Hall.
    assert (H : In (List.last (z :: w') d) (z :: w')) by (apply last_in; congruence).
    rewrite <- elem_of_list_In in H. specialize (Hall _ H). lia.
  - destruct w as [|z w']; [destruct Hx|]. rewrite last_cons2. apply IH. exact Hx.
Qed.

Lemma R_nonempty w h : R w h -> (w = [] <-> h = []).
Proof.
  intros [_ HR]. split; intros ->.
  - destruct h as [|y h]; [reflexivity|]. exfalso.
    assert (Hin : In (maxl (y :: h)) (y :: h)) by (apply maxl_in; congruence).
    destruct (HR (maxl (y :: h))) as [_ H2]. apply H2. split; [exact Hin|lia].
  - destruct w as [|y w]; [reflexivity|]. exfalso.
    destruct (HR y) as [H1 _]. destruct H1 as [[] _]. left; reflexivity.
Qed.

Lemma R_last w h : R w h -> h <> [] -> List.last w 0 = maxl h.
Proof.
  intros HR Hh. pose proof HR as [Hs HRx].
  assert (Hw : w <> []) by (intros E; apply Hh, (R_nonempty w h HR), E).
  assert (Hmw : In (maxl h) w).
  { apply HRx. split; [apply maxl_in, Hh|lia]. }
  pose proof (sorted_last_max w 0 Hs _ Hmw) as H1.
  pose proof (last_in w 0 Hw) as H2. apply HRx in H2. destruct H2 as [H2 _].
  apply maxl_ge in H2. lia.
Qed.

(* drop_old on a sorted list keeps exactly the elements within ttl of mx *)
Lemma drop_old_spec mx w : StronglySorted N.lt w ->
  StronglySorted N.lt (drop_old mx w) /\
  forall x, In x (drop_old mx w) <-> (In x w /\ mx - x <= ttl).
Proof.
  induction 1 as [|y w Hs IH Hall]; cbn [drop_old].
  - split; [constructor|]. intros x; cbn; tauto.
  - destruct (N.leb_spec (mx - y) ttl) as [Hle|Hgt].
    + split; [constructor; assumption|]. intros x. split; [|tauto].
      intros Hx. split; [exact Hx|]. destruct Hx as [<-|Hx]; [exact Hle|].
      rewrite Forall_forall in Hall. rewrite <- elem_of_list_In in Hx. specialize (Hall _ Hx). lia.
    + destruct IH as [IH1 IH2]. split; [exact IH1|]. intros x. rewrite IH2. cbn [In].
      split; [tauto|]. intros [[<-|Hx] Hle]; [lia|tauto].
Qed.

Lemma sorted_app_one w n : StronglySorted N.lt w -> (forall x, In x w -> x < n) ->
  StronglySorted N.lt (w ++ [n]).
Proof.
  induction 1 as [|y w Hs IH Hall]; intros Hlt; cbn [app].
  - constructor; constructor.
  - constructor.
    + apply IH. intros x Hx. apply Hlt. right. exact Hx.
    + rewrite Forall_app. split; [exact Hall|]. constructor; [|constructor].
      apply Hlt. left. reflexivity.
Qed.

Lemma split_ge_spec n w : StronglySorted N.lt w ->
  let '(a, b) := split_ge n w in
  w = a ++ b /\ (forall x, In x a -> x < n) /\ (forall x, In x b -> n <= x).
Proof.
  induction 1 as [|y w Hs IH Hall]; cbn [split_ge].
  - repeat split; intros x [].
  - destruct (N.leb_spec n y) as [Hle|Hgt].
    + split; [reflexivity|]. split; [intros x []|].
      intros x [<-|Hx]; [exact Hle|]. rewrite Forall_forall in Hall.
      rewrite <- elem_of_list_In in Hx. specialize (Hall _ Hx). lia.
    + destruct (split_ge n w) as [a b]. destruct IH as (-> & Ha & Hb).
      split; [reflexivity|]. split; [|exact Hb].
      intros x [<-|Hx]; [exact Hgt|apply Ha, Hx].
Qed.

Lemma sorted_insert a b n : StronglySorted N.lt (a ++ b) ->
  (forall x, In x a -> x < n) -> (forall x, In x b -> n < x) ->
  StronglySorted N.lt (a ++ n :: b).
Proof.
  induction a as [|y a IH]; cbn [app]; intros Hs Ha Hb.
  - constructor; [exact Hs|]. rewrite Forall_forall. intros x Hx. apply Hb.
    rewrite <- elem_of_list_In. exact Hx.
  - inversion Hs as [|? ? Hs' Hall]; subst. constructor.
    + apply IH; [exact Hs'| |exact Hb]. intros x Hx. apply Ha. right. exact Hx.
    + rewrite Forall_app in Hall. destruct Hall as [H1 H2].
      rewrite Forall_app. split; [exact H1|]. constructor; [|exact H2].
      apply Ha. left. reflexivity.
Qed.

Lemma format_pos n : format_ok n = true -> 0 < n.
Proof. unfold format_ok, lo13. rewrite andb_true_iff, N.leb_le. lia. Qed.

(* one step: the window machine gives the specification's verdict and stays related *)
Theorem step_refines w h n : R w h ->
  let '(w', r) := set_nonce n w in
  r = spec_accept n h /\ R w' (match r with None => n :: h | Some _ => h end).
Proof.
  intros HR. unfold set_nonce, spec_accept.
  destruct (format_ok n) eqn:Hf; cbn [negb]; [|split; [reflexivity|exact HR]].
  destruct w as [|w0 wr].
  { assert (h = []) as -> by (apply (R_nonempty [] h HR); reflexivity).
    split; [reflexivity|]. split.
    - constructor; constructor.
    - intros x. cbn. split; [intros [<-|[]]; split; [tauto|lia]|tauto]. }
  set (w := w0 :: wr) in *.
  assert (Hh : h <> []).
  { intros E. apply (R_nonempty w h HR) in E. discriminate. }
  destruct h as [|h0 hr]; [congruence|]. set (h := h0 :: hr) in *.
  rewrite (R_last w h HR Hh). pose proof HR as [Hs HRx].
  destruct (N.ltb_spec (maxl h) n) as [Hnew|Hold].
  - (* fresh maximum *)
    split; [reflexivity|].
    assert (Hlt : forall x, In x w -> x < n).
    { intros x Hx. apply HRx in Hx. destruct Hx as [Hx _]. apply maxl_ge in Hx. lia. }
    destruct (drop_old_spec n (w ++ [n]) (sorted_app_one w n Hs Hlt)) as [D1 D2].
    split; [exact D1|]. intros x. rewrite D2. cbn [maxl].
    replace (N.max n (maxl h)) with n by lia. rewrite in_app_iff. cbn [In].
    split.
    + intros [[Hx|[<-|[]]] Hle]; [|split; [tauto|lia]].
      apply HRx in Hx. split; [tauto|exact Hle].
    + intros [[<-|Hx] Hle]; [split; [tauto|lia]|].
      split; [|exact Hle]. left. apply HRx. split; [exact Hx|]. lia.
  - destruct (N.ltb_spec ttl (maxl h - n)) as [Hst|Hin]; [split; [reflexivity|exact HR]|].
    pose proof (split_ge_spec n w Hs) as Hsp. destruct (split_ge n w) as [a b].
    destruct Hsp as (Hw & Ha & Hb).
    assert (Hmem : memN n h = true <-> In n w).
    { rewrite memN_In. rewrite HRx. split; [intros H; split; [exact H|lia]|tauto]. }
    destruct b as [|x b'].
    + (* everything smaller: impossible unless not a member; insert at the end *)
      assert (Hnm : memN n h = false).
      { destruct (memN n h) eqn:E0; [|reflexivity]. exfalso.
        assert (E : In n w) by (apply Hmem; reflexivity).
        rewrite Hw, app_nil_r in E. specialize (Ha _ E). lia. }
      rewrite Hnm. split; [reflexivity|]. split.
      * rewrite Hw, app_nil_r in Hs. apply sorted_app_one; assumption.
      * intros y. cbn [maxl]. replace (N.max n (maxl h)) with (maxl h) by lia.
        rewrite in_app_iff. cbn [In]. rewrite Hw, app_nil_r in HRx. rewrite HRx.
        split; [intros [Hy|[<-|[]]]; [tauto|split; [tauto|lia]]|].
        intros [[<-|Hy] Hle]; tauto.
    + destruct (N.eqb_spec x n) as [->|Hne].
      * assert (Hm : memN n h = true).
        { apply Hmem. rewrite Hw. apply in_app_iff. right. left. reflexivity. }
        rewrite Hm. split; [reflexivity|exact HR].
      * assert (Hnm : memN n h = false).
        { destruct (memN n h) eqn:E0; [|reflexivity]. exfalso.
          assert (E : In n w) by (apply Hmem; reflexivity).
          rewrite Hw in E. apply in_app_iff in E. destruct E as [E|[E|E]].
          - specialize (Ha _ E). lia.
          - congruence.
          - rewrite Hw in Hs. apply StronglySorted_app_inv_r in Hs.
            inversion Hs as [|? ? _ Hall]; subst. rewrite Forall_forall in Hall.
            rewrite <- elem_of_list_In in E. specialize (Hall _ E).
            specialize (Hb x (or_introl eq_refl)). lia. }
        rewrite Hnm. split; [reflexivity|]. split.
        -- apply sorted_insert; [rewrite <- Hw; exact Hs|exact Ha|].
           intros y Hy. assert (Hx : n <= x) by (apply Hb; left; reflexivity).
           destruct Hy as [<-|Hy]; [lia|].
           rewrite Hw in Hs. apply StronglySorted_app_inv_r in Hs.
           inversion Hs as [|? ? _ Hall]; subst. rewrite Forall_forall in Hall.
           rewrite <- elem_of_list_In in Hy. specialize (Hall _ Hy). lia.
        -- intros y. cbn [maxl]. replace (N.max n (maxl h)) with (maxl h) by lia.
           rewrite in_app_iff. cbn [In].
           assert (Hy : In y w <-> In y a \/ In y (x :: b')) by (rewrite Hw; apply in_app_iff).
           cbn [In] in Hy. pose proof (HRx y) as Hry.
           split.
           ++ intros [H|[<-|H]]; [| split; [tauto|lia] |]; (split; [right|]; apply Hry; tauto).
           ++ intros [[<-|H] Hle]; [tauto|]. assert (In y w) by (apply Hry; tauto). tauto.
Qed.

Lemma R_init : R [] [].
Proof. split; [constructor|]. intros x; cbn; tauto. Qed.

(* whole histories, from any related pair *)
Theorem run_refines ns : forall w h, R w h ->
  snd (w_run w ns) = snd (h_run h ns) /\ R (fst (w_run w ns)) (fst (h_run h ns)).
Proof.
  induction ns as [|n ns IH]; intros w h HR; cbn [w_run h_run].
  - split; [reflexivity|exact HR].
  - pose proof (step_refines w h n HR) as Hstep.
    destruct (set_nonce n w) as [w' r]. destruct Hstep as [Hr HR'].
    rewrite <- Hr. specialize (IH w' _ HR').
    destruct (w_run w' ns) as [w'' es].
    destruct (h_run (match r with None => n :: h | Some _ => h end) ns) as [h'' es'].
    cbn in *. destruct IH as [-> IH2]. split; [reflexivity|exact IH2].
Qed.

Theorem window_refines_history ns : snd (w_run [] ns) = snd (h_run [] ns).
Proof. apply run_refines, R_init. Qed.

(* ---- consequences stated on the specification side ---------------------------- *)
Lemma spec_dup_rejected n h : In n h -> spec_accept n h <> None.
Proof.
  intros Hin. unfold spec_accept. destruct (format_ok n); cbn [negb]; [|discriminate].
  destruct h as [|h0 hr]; [destruct Hin|]. set (h := h0 :: hr) in *.
  pose proof (maxl_ge h n Hin).
  destruct (N.ltb_spec (maxl h) n); [lia|].
  destruct (N.ltb_spec ttl (maxl h - n)); [discriminate|].
  apply memN_In in Hin. rewrite Hin. discriminate.
Qed.

(* the history only grows by accepted nonces and an accepted nonce is never accepted again *)
Lemma h_run_accepts ns : forall h,
  let '(h', es) := h_run h ns in
  (forall x, In x h -> In x h') /\
  (forall i n, nth_error ns i = Some n -> nth_error es i = Some None -> In n h' /\ ~ In n h).
Proof.
  induction ns as [|m ns IH]; intros h; cbn [h_run].
  - split; [tauto|]. intros i n H. destruct i; discriminate.
  - set (e := spec_accept m h). set (h1 := match e with None => m :: h | Some _ => h end).
    specialize (IH h1). destruct (h_run h1 ns) as [h' es]. destruct IH as [IH1 IH2].
    assert (Hsub : forall x, In x h -> In x h1).
    { intros x Hx. unfold h1. destruct e; [exact Hx|right; exact Hx]. }
    split; [intros x Hx; apply IH1, Hsub, Hx|].
    intros i n Hi He. destruct i as [|i]; cbn in Hi, He.
    + injection Hi as ->. injection He as He. split.
      * apply IH1. unfold h1. rewrite He. left. reflexivity.
      * intros Hin. apply (spec_dup_rejected n h Hin). exact He.
    + destruct (IH2 i n Hi He) as [H1 H2]. split; [exact H1|]. intros Hin. apply H2, Hsub, Hin.
Qed.

(* AT MOST ONCE: in any sequence of attempts, from the empty window, no value is accepted
   at two different positions *)
Theorem at_most_once ns i j n :
  i <> j -> nth_error ns i = Some n -> nth_error ns j = Some n ->
  nth_error (snd (w_run [] ns)) i = Some None ->
  nth_error (snd (w_run [] ns)) j = Some None -> False.
Proof.
  rewrite window_refines_history. generalize (@nil N) as h.
  revert i j. induction ns as [|m ns IH]; intros i j h Hij Hi Hj Ei Ej.
  - destruct i; discriminate.
  - cbn [h_run] in Ei, Ej.
    set (e := spec_accept m h) in *. set (h1 := match e with None => m :: h | Some _ => h end) in *.
    pose proof (h_run_accepts ns h1) as HA.
    destruct (h_run h1 ns) as [h' es] eqn:Eh. destruct HA as [HA1 HA2]. cbn [snd] in Ei, Ej.
    destruct i as [|i], j as [|j]; cbn in Hi, Hj, Ei, Ej.
    + congruence.
    + injection Hi as ->. injection Ei as Ei. destruct (HA2 j n Hj Ej) as [_ Hn].
      apply Hn. unfold h1. rewrite Ei. left. reflexivity.
    + injection Hj as ->. injection Ej as Ej. destruct (HA2 i n Hi Ei) as [_ Hn].
      apply Hn. unfold h1. rewrite Ej. left. reflexivity.
    + apply (IH i j h1); [congruence|exact Hi|exact Hj| |]; rewrite Eh; assumption.
Qed.

(* decision rules on the window machine itself, for any reachable window *)
Definition reachable (w : list N) : Prop := exists ns, w = fst (w_run [] ns).

Lemma reachable_R w : reachable w -> exists h, R w h.
Proof.
  intros [ns ->]. exists (fst (h_run [] ns)). apply (run_refines ns [] [] R_init).
Qed.

Theorem bad_format_rejected n w : format_ok n = false -> set_nonce n w = (w, Some EFormat).
Proof. intros H. unfold set_nonce. rewrite H. reflexivity. Qed.

Theorem stale_rejected n w : reachable w -> w <> [] -> format_ok n = true ->
  ttl < List.last w 0 - n -> set_nonce n w = (w, Some EStale).
Proof.
  intros _ Hw Hf Hst. unfold set_nonce. rewrite Hf. cbn [negb].
  destruct w as [|w0 wr]; [congruence|].
  destruct (N.ltb_spec (List.last (w0 :: wr) 0) n); [lia|].
  destruct (N.ltb_spec ttl (List.last (w0 :: wr) 0 - n)); [reflexivity|lia].
Qed.

(* any fresh (larger than everything so far) or in-window unused nonce is accepted *)
Theorem in_window_unused_accepted n w : reachable w -> format_ok n = true ->
  ~ In n w -> (w = [] \/ List.last w 0 < n \/ List.last w 0 - n <= ttl) ->
  snd (set_nonce n w) = None.
Proof.
  intros Hr Hf Hnin Hwin. destruct (reachable_R w Hr) as [h HR].
  pose proof (step_refines w h n HR) as Hs. destruct (set_nonce n w) as [w' r].
  destruct Hs as [-> _]. cbn [snd]. unfold spec_accept. rewrite Hf. cbn [negb].
  destruct h as [|h0 hr]; [reflexivity|]. set (h := h0 :: hr) in *.
  assert (Hh : h <> []) by (unfold h; congruence).
  assert (Hw : w <> []) by (intros E; apply Hh, (R_nonempty w h HR), E).
  rewrite <- (R_last w h HR Hh).
  destruct (N.ltb_spec (List.last w 0) n) as [|Hle]; [reflexivity|].
  destruct Hwin as [E|[Hlt|Hin]]; [congruence|lia|].
  destruct (N.ltb_spec ttl (List.last w 0 - n)); [lia|].
  destruct (memN n h) eqn:Em; [|reflexivity]. exfalso. apply Hnin.
  pose proof (R_last w h HR Hh) as HL. destruct HR as [_ HRx]. apply HRx.
  apply memN_In in Em. split; [exact Em|]. rewrite <- HL. exact Hin.
Qed.

(* ---- per-sender store: independence of senders, consumption, both routes -------- *)
Definition accepted (x : rres) : bool := match x with RNonce _ => false | _ => true end.

Lemma exec_same r s1 s2 : s1 !! r_sender r = s2 !! r_sender r ->
  snd (exec s1 r) = snd (exec s2 r) /\
  fst (exec s1 r) !! r_sender r = fst (exec s2 r) !! r_sender r.
Proof.
  intros H. unfold exec, check_nonce. rewrite H.
  destruct (set_nonce (r_nonce r) (default [] (s2 !! r_sender r))) as [w' [e|]]; cbn.
  - split; [reflexivity|exact H].
  - split; [reflexivity|]. rewrite !lookup_insert. reflexivity.
Qed.

Lemma exec_other r s a : r_sender r <> a -> fst (exec s r) !! a = s !! a.
Proof.
  intros H. unfold exec, check_nonce.
  destruct (set_nonce (r_nonce r) (default [] (s !! r_sender r))) as [w' [e|]]; cbn; [reflexivity|].
  apply lookup_insert_ne. exact H.
Qed.

(* the body's outcome never influences the nonce store, and the route is irrelevant:
   both routes check the same per-sender window *)
Theorem consumed_even_if_body_fails s rt rt' a n ok ok' :
  fst (exec s (Req rt a n ok)) = fst (exec s (Req rt' a n ok')) /\
  accepted (snd (exec s (Req rt a n ok))) = accepted (snd (exec s (Req rt' a n ok'))).
Proof.
  unfold exec, check_nonce. cbn [r_sender r_nonce r_body_ok].
  destruct (set_nonce n (default [] (s !! a))) as [w' [e|]]; cbn; [split; reflexivity|].
  split; [reflexivity|]. destruct ok, ok'; reflexivity.
Qed.

(* results of the requests of sender [a] inside a mixed run *)
Fixpoint proj_sender (a : N) (rs : list req) (xs : list rres) : list rres :=
  match rs, xs with
  | r :: rt, x :: xt => if N.eqb (r_sender r) a then x :: proj_sender a rt xt else proj_sender a rt xt
  | _, _ => []
  end.
Definition only_sender (a : N) (rs : list req) : list req :=
  List.filter (fun r => N.eqb (r_sender r) a) rs.

(* one sender's nonces never influence another sender's: the verdicts for [a] in any
   interleaved run are those of [a]'s own subsequence run alone *)
Theorem sender_independent a rs : forall s1 s2, s1 !! a = s2 !! a ->
  proj_sender a rs (snd (exec_run s1 rs)) = snd (exec_run s2 (only_sender a rs)).
Proof.
  induction rs as [|r rs IH]; intros s1 s2 H; cbn [exec_run only_sender List.filter]; [reflexivity|].
  destruct (exec s1 r) as [s1' x] eqn:E1.
  destruct (N.eqb_spec (r_sender r) a) as [Ea|Ea].
  - destruct (exec_same r s1 s2) as [Hx Hs]; [rewrite Ea; exact H|].
    rewrite E1 in Hx, Hs. cbn [exec_run]. destruct (exec s2 r) as [s2' x2]. cbn in Hx, Hs. subst x2.
    rewrite Ea in Hs. specialize (IH s1' s2' Hs). fold (only_sender a rs).
    destruct (exec_run s1' rs) as [s1'' xs]. destruct (exec_run s2' (only_sender a rs)) as [s2'' ys].
    cbn [snd proj_sender] in *. rewrite (proj2 (N.eqb_eq _ _) Ea). rewrite IH. reflexivity.
  - pose proof (exec_other r s1 a Ea) as Ho. rewrite E1 in Ho. cbn in Ho.
    assert (Hs : s1' !! a = s2 !! a) by congruence.
    specialize (IH s1' s2 Hs). fold (only_sender a rs).
    destruct (exec_run s1' rs) as [s1'' xs]. cbn [snd proj_sender] in *.
    rewrite (proj2 (N.eqb_neq _ _) Ea). exact IH.
Qed.

(* a single sender's run is the window machine *)
Lemma exec_run_single a : forall rs w s, Forall (fun r => r_sender r = a) rs -> s !! a = Some w \/ (s !! a = None /\ w = []) ->
  map accepted (snd (exec_run s rs)) =
  map (fun e => match e with None => true | Some _ => false end) (snd (w_run w (map r_nonce rs))).
Proof.
  induction rs as [|r rs IH]; intros w s HF Hs; [reflexivity|].
  apply Forall_cons in HF as [Hr HF']. cbn [exec_run map w_run].
  unfold exec, check_nonce. rewrite Hr.
  assert (Hd : default [] (s !! a) = w).
  { destruct Hs as [->|[-> ->]]; reflexivity. }
  rewrite Hd. destruct (set_nonce (r_nonce r) w) as [w' [e|]] eqn:Es.
  - specialize (IH w' s HF'). assert (w' = w) as ->.
    { unfold set_nonce in Es. destruct (negb (format_ok (r_nonce r))); [congruence|].
      destruct w as [|w0 wr]; [congruence|].
      destruct (List.last (w0 :: wr) 0 <? r_nonce r); [congruence|].
      destruct (ttl <? List.last (w0 :: wr) 0 - r_nonce r); [congruence|].
      destruct (split_ge (r_nonce r) (w0 :: wr)) as [aa [|x b]]; [congruence|].
      destruct (x =? r_nonce r); congruence. }
    specialize (IH Hs). destruct (exec_run s rs) as [s'' xs]. destruct (w_run w (map r_nonce rs)) as [w'' es].
    cbn in *. rewrite IH. reflexivity.
  - specialize (IH w' (<[a:=w']> s) HF' (or_introl (lookup_insert _ _ _))).
    destruct (exec_run (<[a:=w']> s) rs) as [s'' xs]. destruct (w_run w' (map r_nonce rs)) as [w'' es].
    cbn in *. rewrite IH. destruct (r_body_ok r); reflexivity.
Qed.

(* AT MOST ONCE at system level: over any interleaving of senders and of the two routes,
   from the empty store, a (sender, nonce) pair is never accepted at two positions *)
Theorem at_most_once_system rs i j ri rj :
  i <> j -> nth_error rs i = Some ri -> nth_error rs j = Some rj ->
  r_sender ri = r_sender rj -> r_nonce ri = r_nonce rj ->
  (exists xi, nth_error (snd (exec_run ∅ rs)) i = Some xi /\ accepted xi = true) ->
  (exists xj, nth_error (snd (exec_run ∅ rs)) j = Some xj /\ accepted xj = true) -> False.
Proof.
  intros Hij Hi Hj Hsn Hnn [xi [Exi Axi]] [xj [Exj Axj]].
  set (a := r_sender ri).
  (* positions of i and j inside a's subsequence *)
  assert (Hpos : forall (rs : list req) (xs : list rres) k r x, length xs = length rs ->
     nth_error rs k = Some r -> nth_error xs k = Some x -> r_sender r = a ->
     let k' := length (only_sender a (firstn k rs)) in
     nth_error (only_sender a rs) k' = Some r /\ nth_error (proj_sender a rs xs) k' = Some x).
  { clear. induction rs as [|r0 rs IH]; intros xs k r x Hl Hk Hx Ha; [destruct k; discriminate|].
    destruct xs as [|x0 xs]; [discriminate|]. injection Hl as Hl.
    destruct k as [|k]; cbn in Hk, Hx.
    - injection Hk as ->. injection Hx as ->. cbn [firstn only_sender List.filter length proj_sender].
      rewrite (proj2 (N.eqb_eq _ _) Ha). split; reflexivity.
    - specialize (IH xs k r x Hl Hk Hx Ha). cbn [firstn only_sender List.filter proj_sender].
      destruct (N.eqb (r_sender r0) a); cbn [length nth_error]; exact IH. }
  assert (Hlen : forall rs s, length (snd (exec_run s rs)) = length rs).
  { clear. induction rs as [|r rs IH]; intros s; [reflexivity|]. cbn [exec_run].
    destruct (exec s r) as [s' x]. specialize (IH s'). destruct (exec_run s' rs). cbn in *. lia. }
  destruct (Hpos rs _ i ri xi (Hlen rs ∅) Hi Exi eq_refl) as [Pi1 Pi2].
  destruct (Hpos rs _ j rj xj (Hlen rs ∅) Hj Exj (eq_sym Hsn)) as [Pj1 Pj2].
  set (i' := length (only_sender a (firstn i rs))) in *.
  set (j' := length (only_sender a (firstn j rs))) in *.
  assert (Hij' : i' <> j').
  { (* strictly monotone: the element at the smaller index is counted in the larger prefix *)
    assert (Hmono : forall (rs : list req) (p q : nat) r, (p < q)%nat -> nth_error rs p = Some r -> r_sender r = a ->
       (length (only_sender a (firstn p rs)) < length (only_sender a (firstn q rs)))%nat).
    { clear. induction rs as [|r0 rs IH]; intros p q r Hpq Hp Ha; [destruct p; discriminate|].
      destruct q as [|q]; [lia|]. destruct p as [|p]; cbn in Hp.
      - injection Hp as ->. cbn [firstn only_sender List.filter length].
        rewrite (proj2 (N.eqb_eq _ _) Ha). cbn [length]. lia.
      - specialize (IH p q r ltac:(lia) Hp Ha). cbn [firstn only_sender List.filter].
        destruct (N.eqb (r_sender r0) a); cbn [length]; fold (only_sender a (firstn p rs));
          fold (only_sender a (firstn q rs)); lia. }
    destruct (Nat.lt_trichotomy i j) as [H|[H|H]]; [|congruence|].
    - specialize (Hmono rs i j ri H Hi eq_refl). unfold i', j'. lia.
    - specialize (Hmono rs j i rj H Hj (eq_sym Hsn)). unfold i', j'. lia. }
  rewrite (sender_independent a rs ∅ ∅ eq_refl) in Pi2, Pj2.
  assert (HF : Forall (fun r => r_sender r = a) (only_sender a rs)).
  { rewrite Forall_forall. intros r Hr. rewrite elem_of_list_In in Hr.
    apply filter_In in Hr. destruct Hr as [_ Hr]. apply N.eqb_eq. exact Hr. }
  pose proof (exec_run_single a (only_sender a rs) [] ∅ HF (or_intror (conj (lookup_empty _) eq_refl))) as HS.
  apply (at_most_once (map r_nonce (only_sender a rs)) i' j' (r_nonce ri) Hij').
  - rewrite nth_error_map, Pi1. reflexivity.
  - rewrite nth_error_map, Pj1, Hnn. reflexivity.
  - apply (f_equal (fun l => nth_error l i')) in HS. rewrite !nth_error_map, Pi2 in HS. cbn in HS.
    rewrite Axi in HS. destruct (nth_error (snd (w_run _ _)) i') as [[e|]|]; cbn in HS; congruence || reflexivity.
  - apply (f_equal (fun l => nth_error l j')) in HS. rewrite !nth_error_map, Pj2 in HS. cbn in HS.
    rewrite Axj in HS. destruct (nth_error (snd (w_run _ _)) j') as [[e|]|]; cbn in HS; congruence || reflexivity.
Qed.
