From Fnd Require Import Base.Prelude Model.QueryStub.

Lemma effects_through_wrapped body : effects (through true body) = [].
Proof.
  unfold effects, through. induction body as [|o body IH]; [reflexivity|]. cbn [List.filter].
  destruct (mutating o) eqn:E; cbn [negb List.filter]; [exact IH|]. rewrite E. exact IH.
Qed.

(* whatever the body attempts, on either route, with or without a sender, whatever the ACL
   answers: nothing reaches the ledger, the write set or the event *)
Theorem query_readonly r s a body : effects (run_query r s a body) = [].
Proof. unfold run_query. apply effects_through_wrapped. Qed.

(* the wrapper hides nothing from the reads *)
Theorem reads_preserved body o : mutating o = false -> In o body -> In o (through true body).
Proof. intros H Hin. unfold through. apply filter_In. split; [exact Hin|]. rewrite H. reflexivity. Qed.

(* an unwrapped stub would let every mutating operation through (why the wrapper matters) *)
Theorem unwrapped_leaks body : effects (through false body) = effects body.
Proof. reflexivity. Qed.

(* ---- the wrapper with data ---------------------------------------------------------------- *)
(* the wrapped body leaves the peer's view of the transaction exactly as it found it: no write, no delete, no event, no
   validation parameter, no private data - whatever the body attempts, in any order and number *)
Theorem wrapped_leaves_peer body : forall p, fst (run_with wrapped_step p body) = p.
Proof.
  induction body as [|o r IH]; intros p; cbn [run_with]; [reflexivity|].
  unfold wrapped_step at 1. destruct (is_write o) eqn:E.
  - specialize (IH p). destruct (run_with wrapped_step p r) as [p2 xs]. exact IH.
  - destruct o; try discriminate; cbn [peer_step]; specialize (IH p); destruct (run_with wrapped_step p r) as [p2 xs]; exact IH.
Qed.

(* ... and it reads exactly what the same body would read unwrapped: a query sees the committed ledger, never its
   own attempted writes - with or without the wrapper *)
Lemma wrapped_reads_same_gen body : forall p q, committed p = committed q ->
  snd (run_with wrapped_step p body) = snd (run_with peer_step q body).
Proof.
  induction body as [|o r IH]; intros p q Hc; cbn [run_with]; [reflexivity|].
  unfold wrapped_step at 1. destruct o as [k v|k|n v|x|k|x]; cbn [is_write peer_step].
  - specialize (IH p (Peer (committed q) (writes q ++ [(k, Some v)]) (event q) (others q)) Hc).
    destruct (run_with wrapped_step p r) as [p2 xs]. destruct (run_with peer_step _ r) as [q2 ys]. cbn [snd] in *. congruence.
  - specialize (IH p (Peer (committed q) (writes q ++ [(k, None)]) (event q) (others q)) Hc).
    destruct (run_with wrapped_step p r) as [p2 xs]. destruct (run_with peer_step _ r) as [q2 ys]. cbn [snd] in *. congruence.
  - specialize (IH p (Peer (committed q) (writes q) (Some (n, v)) (others q)) Hc).
    destruct (run_with wrapped_step p r) as [p2 xs]. destruct (run_with peer_step _ r) as [q2 ys]. cbn [snd] in *. congruence.
  - specialize (IH p (Peer (committed q) (writes q) (event q) (others q ++ [x])) Hc).
    destruct (run_with wrapped_step p r) as [p2 xs]. destruct (run_with peer_step _ r) as [q2 ys]. cbn [snd] in *. congruence.
  - specialize (IH p q Hc). rewrite Hc.
    destruct (run_with wrapped_step p r) as [p2 xs]. destruct (run_with peer_step q r) as [q2 ys]. cbn [snd] in *. congruence.
  - specialize (IH p q Hc).
    destruct (run_with wrapped_step p r) as [p2 xs]. destruct (run_with peer_step q r) as [q2 ys]. cbn [snd] in *. congruence.
Qed.
Theorem wrapped_reads_same body p : snd (run_with wrapped_step p body) = snd (run_with peer_step p body).
Proof. apply wrapped_reads_same_gen. reflexivity. Qed.

(* the numbered-operation model of Model/QueryStub.v is the projection of this one *)
Lemma is_write_mutating o : (match o with QOtherWrite x => (3 <=? x)%N && (x <=? 7)%N | QOtherRead x => (20 <=? x)%N | _ => true end) = true ->
  is_write o = mutating (op_no o).
Proof. destruct o as [k v|k|n v|x|k|x]; cbn; intros H; try reflexivity.
  - unfold mutating. apply andb_true_iff in H as [H1 H2]. apply N.leb_le in H1, H2.
    destruct (N.leb_spec 1 x), (N.leb_spec x 8); try reflexivity; lia.
  - unfold mutating. apply N.leb_le in H. destruct (N.leb_spec 1 x), (N.leb_spec x 8); try reflexivity; lia.
Qed.
