From Fnd Require Import Base.Prelude Model.QueryStub.

Lemma effects_through_wrapped body : effects (through true body) = [].
Proof.
  unfold effects, through. induction body as [|o body IH]; [reflexivity|]. cbn [List.filter].
  destruct (mutating o) eqn:E; cbn [negb List.filter]; [exact IH|]. rewrite E. exact IH.
Qed.

(* whatever the body attempts, on either route, with or without a sender, whatever the ACL
   answers: nothing reaches the ledger, the write set or the event *)
Theorem query_readonly r s a body : effects (run_query r s a body) = [].
Proof. unfold run_query. apply effects_through_wrapped. Qed.

(* the wrapper hides nothing from the reads *)
Theorem reads_preserved body o : mutating o = false -> In o body -> In o (through true body).
Proof. intros H Hin. unfold through. apply filter_In. split; [exact Hin|]. rewrite H. reflexivity. Qed.

(* an unwrapped stub would let every mutating operation through (why the wrapper matters) *)
Theorem unwrapped_leaks body : effects (through false body) = effects body.
Proof. reflexivity. Qed.
