(* Proofs about Model/Process.v *)
From Fnd Require Import Base.Prelude Model.Process.

Section ProcessProofs.
  Context {Cfg Meta Ledger Prop_ Result : Type}.
  Variable meta0 : Meta.
  Variable cfg_of : Ledger -> option Cfg.
  Variable meta_of : Ledger -> option Meta.
  Variable body : Cfg -> Meta -> Ledger -> Prop_ -> Result * Meta.
  Variable no_config : Result.
  Notation inv := (p_invoke meta0 cfg_of meta_of body no_config).
  Notation hist := (p_history meta0 cfg_of meta_of body no_config).

  (* the reply is a function of the committed state and the proposal alone *)
  Theorem reply_independent_of_memory m1 m2 l p : fst (inv true true m1 l p) = fst (inv true true m2 l p).
  Proof.
    unfold p_invoke. destruct (cfg_of l) as [c|]; [|reflexivity].
    destruct (meta_of l) as [x|]; destruct (body c _ l p); reflexivity.
  Qed.

  (* ... whatever the process handled before: committed, failed, or simulated and dropped *)
  Theorem reply_independent_of_history h1 h2 m1 m2 l p :
    fst (inv true true (hist true true m1 h1) l p) = fst (inv true true (hist true true m2 h2) l p).
  Proof. apply reply_independent_of_memory. Qed.

  (* a fresh process and a long-lived one agree *)
  Corollary fresh_equals_long_lived h m l p :
    fst (inv true true (PMem None None) l p) = fst (inv true true (hist true true m h) l p).
  Proof. apply reply_independent_of_memory. Qed.
End ProcessProofs.

(* without the reload the reply does depend on the process: a metadata object left behind by an
   earlier (dropped) invocation, or a configuration applied once *)
Theorem keep_metadata_refuted :
  exists (m1 m2 : @pmem unit nat) (l : unit) (p : unit),
    fst (p_invoke 0 (fun _ => Some tt) (fun _ => None) (fun _ mt _ _ => (mt, mt)) 99 true false m1 l p) <>
    fst (p_invoke 0 (fun _ => Some tt) (fun _ => None) (fun _ mt _ _ => (mt, mt)) 99 true false m2 l p).
Proof. exists (PMem None None), (PMem None (Some 7)), tt, tt. cbn. discriminate. Qed.

Theorem configure_once_refuted :
  exists (m1 m2 : @pmem nat unit) (l : unit) (p : unit),
    fst (p_invoke tt (fun _ => Some 1) (fun _ => None) (fun c mt _ _ => (c, mt)) 99 false true m1 l p) <>
    fst (p_invoke tt (fun _ => Some 1) (fun _ => None) (fun c mt _ _ => (c, mt)) 99 false true m2 l p).
Proof. exists (PMem None None), (PMem (Some 2) None), tt, tt. cbn. discriminate. Qed.

(* the rendered order does not depend on the iteration order *)
Global Instance N_le_trans : Transitive N_le.
Proof. intros a b c. unfold N_le. lia. Qed.
Global Instance N_le_antisym : AntiSymm (=) N_le.
Proof. intros a b. unfold N_le. lia. Qed.
Global Instance N_le_total : Total N_le.
Proof. intros a b. unfold N_le. lia. Qed.

Theorem render_order_independent l1 l2 : l1 ≡ₚ l2 -> render l1 = render l2.
Proof.
  intros H. unfold render. apply (Sorted_unique N_le).
  - apply Sorted_merge_sort; apply _.
  - apply Sorted_merge_sort; apply _.
  - rewrite !merge_sort_Permutation. exact H.
Qed.
Theorem render_sorted l : Sorted N_le (render l) /\ render l ≡ₚ l.
Proof. split; [apply Sorted_merge_sort; apply _|apply merge_sort_Permutation]. Qed.
