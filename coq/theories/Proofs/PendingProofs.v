(* C05 on the serial specification (equal to the implementation model by batch_is_serial):
   pending records are deferred, executed at most once, always consumed. *)
From Fnd Require Import Base.Prelude Model.Cache Model.Nonce Model.Batch Proofs.CacheProofs Proofs.BatchProofs.

(* bodies touch data keys only (keys 4k); pending and nonce keys belong to the framework *)
Definition step_data (s : sstep) : Prop :=
  match s with SPut k _ | SDel k => exists j, k = dk j | _ => True end.
Definition data_only (bodies : list body) : Prop := Forall (Forall step_data) bodies.

Lemma pk_not_dk id j : pk id <> dk j.
Proof. unfold pk, dk. lia. Qed.
Lemma pk_not_nk id s : pk id <> nk s.
Proof. unfold pk, nk. lia. Qed.
Lemma pk_inj a b : pk a = pk b -> a = b.
Proof. unfold pk. lia. Qed.

Lemma run_p_frame bd : Forall step_data bd -> forall m ev g id,
  let '(_, m', _, _) := run_p m ev g bd in led_get m' (pk id) = led_get m (pk id).
Proof.
  induction 1 as [|st bd Hs _ IH]; intros m ev g id; cbn [run_p]; [reflexivity|].
  destruct st as [k v|k|k|n v| |]; cbn in Hs.
  - destruct Hs as [j ->]. specialize (IH (led_put m (dk j) v) ev g id).
    destruct (run_p _ ev g bd) as [[[o m'] e'] g']. rewrite IH, led_get_put.
    rewrite decide_False by apply pk_not_dk. reflexivity.
  - destruct Hs as [j ->]. specialize (IH (led_del m (dk j)) ev g id).
    destruct (run_p _ ev g bd) as [[[o m'] e'] g']. rewrite IH, led_get_del.
    rewrite decide_False by apply pk_not_dk. reflexivity.
  - apply IH.
  - apply IH.
  - reflexivity.
  - reflexivity.
Qed.

Lemma nth_body_data bodies bi : data_only bodies -> Forall step_data (nth_body bodies bi).
Proof.
  intros H. unfold nth_body. destruct (nth_in_or_default (N.to_nat bi) bodies []) as [Hin | ->]; [|constructor].
  unfold data_only in H. rewrite Forall_forall in H. apply H. apply elem_of_list_In. exact Hin.
Qed.

Lemma spec_tx_frame l bd id : Forall step_data bd -> led_get (fst (spec_tx l bd)) (pk id) = led_get l (pk id).
Proof.
  intros H. unfold spec_tx. pose proof (run_p_frame bd H l ∅ [] id) as Hf.
  destruct (run_p l ∅ [] bd) as [[[o m'] e'] g']. destruct o; cbn [fst]; [exact Hf|reflexivity|reflexivity].
Qed.

(* one listed id: its own record is gone afterwards; other records are untouched *)
Lemma spec_item_pending bodies l id id' : data_only bodies ->
  led_get (fst (spec_item bodies l id)) (pk id') = if decide (id' = id) then [] else led_get l (pk id').
Proof.
  intros Hd. unfold spec_item.
  assert (Hdel : forall m, led_get (led_del m (pk id)) (pk id') = if decide (id' = id) then [] else led_get m (pk id')).
  { intros m. rewrite led_get_del. destruct (decide (pk id' = pk id)) as [E|E].
    - apply pk_inj in E. subst. rewrite decide_True by reflexivity. reflexivity.
    - rewrite decide_False by (intros ->; congruence). reflexivity. }
  destruct (led_get l (pk id)) as [|s [|n [|bi [|? ?]]]] eqn:El; cbn [fst]; try apply Hdel.
  - destruct (decide (id' = id)) as [->|]; [exact El|reflexivity].
  - destruct (N.eqb s 0).
    { rewrite spec_tx_frame by (apply nth_body_data, Hd). apply Hdel. }
    destruct (set_nonce n (led_get l (nk s))) as [w' [e|]]; cbn [fst]; [apply Hdel|].
    rewrite spec_tx_frame by (apply nth_body_data, Hd). rewrite Hdel.
    destruct (decide (id' = id)); [reflexivity|]. rewrite led_get_put.
    rewrite decide_False by apply pk_not_nk. reflexivity.
Qed.

(* ALWAYS CONSUMED: after the batch, no listed id has a pending record, whether its
   transaction succeeded, failed, panicked or was unknown *)
Theorem always_consumed bodies ids : data_only bodies -> forall l id, In id ids ->
  led_get (fst (spec_batch bodies l ids)) (pk id) = [].
Proof.
  intros Hd. induction ids as [|x ids IH]; intros l id Hin; [destruct Hin|].
  cbn [spec_batch]. destruct (spec_item bodies l x) as [l1 r] eqn:E1.
  destruct (spec_batch bodies l1 ids) as [l2 rs] eqn:E2. cbn [fst].
  destruct (in_dec N.eq_dec id ids) as [Hi|Hn].
  - specialize (IH l1 id Hi). rewrite E2 in IH. exact IH.
  - destruct Hin as [->|Hi]; [|contradiction].
    assert (H1 : led_get l1 (pk id) = []).
    { pose proof (spec_item_pending bodies l id id Hd) as H. rewrite E1 in H. cbn [fst] in H.
      rewrite decide_True in H by reflexivity. exact H. }
    (* the remaining items do not list id: its key stays empty *)
    clear E1 IH. revert l1 l2 rs E2 H1. induction ids as [|y ids IH2]; intros l1 l2 rs E2 H1.
    + cbn in E2. injection E2 as <- _. exact H1.
    + cbn [spec_batch] in E2. destruct (spec_item bodies l1 y) as [l1' r'] eqn:E3.
      destruct (spec_batch bodies l1' ids) as [l2' rs'] eqn:E4. injection E2 as <- _.
      apply (IH2 ltac:(intros Hc; apply Hn; right; exact Hc) l1' l2' rs' E4).
      pose proof (spec_item_pending bodies l1 y id Hd) as H. rewrite E3 in H. cbn [fst] in H.
      rewrite H. destruct (decide (id = y)); [reflexivity|exact H1].
Qed.

(* a listed id without a pending record yields "not found" and changes nothing at all *)
Theorem unknown_id_local bodies l id : led_get l (pk id) = [] ->
  spec_item bodies l id = (l, IErr INotFound).
Proof. intros H. unfold spec_item. rewrite H. reflexivity. Qed.

(* histories of submissions and batches *)
Inductive hop := HSubmit (id s n bi : N) | HBatch (ids : list N).
Fixpoint h_exec (bodies : list body) (l : ledger) (h : list hop) : ledger * list (list (N * ires)) :=
  match h with
  | [] => (l, [])
  | HSubmit id s n bi :: r => h_exec bodies (submit l id s n bi) r
  | HBatch ids :: r => let '(l', rs) := spec_batch bodies l ids in
                       let '(l'', out) := h_exec bodies l' r in (l'', combine ids rs :: out)
  end.

Definition executed (x : N * ires) (id : N) : bool :=
  N.eqb (fst x) id && negb (bool_decide (snd x = IErr INotFound)).
Definition count_exec (id : N) (out : list (list (N * ires))) : nat :=
  length (List.filter (fun x => executed x id) (concat out)).
Definition count_submit (id : N) (h : list hop) : nat :=
  length (List.filter (fun o => match o with HSubmit i _ _ _ => N.eqb i id | _ => false end) h).
Definition present (l : ledger) (id : N) : nat := match led_get l (pk id) with [] => 0 | _ => 1 end.

Lemma submit_pending l id s n bi id' :
  led_get (submit l id s n bi) (pk id') = if decide (id' = id) then [s; n; bi] else led_get l (pk id').
Proof.
  unfold submit. rewrite led_get_put. destruct (decide (pk id' = pk id)) as [E|E].
  - apply pk_inj in E. subst. rewrite decide_True by reflexivity. reflexivity.
  - rewrite decide_False by (intros ->; congruence). reflexivity.
Qed.

(* one batch: executions of id in it + presence afterwards <= presence before *)
Lemma batch_exec_count bodies ids : data_only bodies -> forall l id,
  let '(l', rs) := spec_batch bodies l ids in
  (length (List.filter (fun x => executed x id) (combine ids rs)) + present l' id <= present l id)%nat.
Proof.
  intros Hd. induction ids as [|x ids IH]; intros l id; cbn [spec_batch]; [cbn; lia|].
  destruct (spec_item bodies l x) as [l1 r] eqn:E1. specialize (IH l1 id).
  destruct (spec_batch bodies l1 ids) as [l2 rs]. cbn [combine List.filter].
  pose proof (spec_item_pending bodies l x id Hd) as Hp. rewrite E1 in Hp. cbn [fst] in Hp.
  unfold executed at 1. cbn [fst snd]. destruct (N.eqb_spec x id) as [->|Hne]; cbn [andb].
  - rewrite decide_True in Hp by reflexivity.
    assert (P1 : present l1 id = 0%nat) by (unfold present; rewrite Hp; reflexivity).
    destruct (bool_decide (r = IErr INotFound)) eqn:Eb; cbn [negb length].
    + lia.
    + (* executed: the record was present *)
      assert (present l id = 1%nat).
      { unfold present. destruct (led_get l (pk id)) eqn:El; [|reflexivity]. exfalso.
        rewrite (unknown_id_local bodies l id El) in E1. injection E1 as _ <-.
        apply bool_decide_eq_false in Eb. congruence. }
      lia.
  - rewrite decide_False in Hp by congruence.
    assert (present l1 id = present l id) by (unfold present; rewrite Hp; reflexivity). lia.
Qed.

(* EXECUTED AT MOST ONCE: over any history of submissions and batches (ids listed in any
   multiset: duplicates inside a batch, re-listing in later batches, unknown ids), a request
   is executed at most as often as it was submitted - once, transaction ids being unique *)
Theorem executed_at_most_once bodies h : data_only bodies -> forall l id,
  (count_exec id (snd (h_exec bodies l h)) + present (fst (h_exec bodies l h)) id
   <= count_submit id h + present l id)%nat.
Proof.
  intros Hd. induction h as [|o h IH]; intros l id; cbn [h_exec]; [cbn; lia|].
  destruct o as [i s n bi|ids].
  - specialize (IH (submit l i s n bi) id). unfold count_submit in *. cbn [List.filter].
    assert (present (submit l i s n bi) id <= (if N.eqb i id then 1 else 0) + present l id)%nat.
    { unfold present. rewrite submit_pending. destruct (N.eqb_spec i id) as [->|Hne].
      - rewrite decide_True by reflexivity. destruct (led_get l (pk id)); lia.
      - rewrite decide_False by congruence. lia. }
    destruct (N.eqb i id); cbn [length] in *; lia.
  - pose proof (batch_exec_count bodies ids Hd l id) as Hb.
    destruct (spec_batch bodies l ids) as [l1 rs]. specialize (IH l1 id).
    destruct (h_exec bodies l1 h) as [l2 out]. cbn [fst snd] in *.
    unfold count_exec in *. cbn [concat]. rewrite List.filter_app, app_length.
    unfold count_submit in *. cbn [List.filter]. lia.
Qed.

(* DEFERRED: a submission only records the request (exactly one key changes) *)
Theorem submit_records_only l id s n bi k : k <> pk id -> led_get (submit l id s n bi) k = led_get l k.
Proof. intros H. unfold submit. rewrite led_get_put, decide_False by exact H. reflexivity. Qed.
