(* Proofs about Model/Contain.v *)
From Fnd Require Import Base.Prelude Model.Contain.

(* every goroutine's body ends in a recover *)
Fixpoint guarded (f : frame) : Prop :=
  match f with
  | Leaf _ _ => True
  | Seq l => (fix all (l : list frame) : Prop := match l with [] => True | x :: r => guarded x /\ all r end) l
  | Recover g => guarded g
  | Go g => guarded g /\ match g with Recover _ => True | _ => False end
  end.

Lemma run_seq_cons x r : run (Seq (x :: r)) =
  let '(o, lg) := run x in match o with Done => let '(o', lg') := run (Seq r) in (o', lg ++ lg') | _ => (o, lg) end.
Proof. reflexivity. Qed.

Lemma run_recover_not_panicking g : fst (run (Recover g)) <> Panicking.
Proof. cbn [run]. destruct (run g) as [o lg]. destruct o; cbn; discriminate. Qed.

Section frame_ind.
  Variable P : frame -> Prop.
  Hypothesis HL : forall id p, P (Leaf id p).
  Hypothesis HS : forall l, Forall P l -> P (Seq l).
  Hypothesis HR : forall g, P g -> P (Recover g).
  Hypothesis HG : forall g, P g -> P (Go g).
  Fixpoint frame_ind' (f : frame) : P f :=
    match f with
    | Leaf id p => HL id p
    | Seq l => HS l ((fix go (l : list frame) : Forall P l :=
                        match l with [] => List.Forall_nil P | x :: r => @List.Forall_cons _ P x r (frame_ind' x) (go r) end) l)
    | Recover g => HR g (frame_ind' g)
    | Go g => HG g (frame_ind' g)
    end.
End frame_ind.

Theorem guarded_never_dead f : guarded f -> fst (run f) <> Dead.
Proof.
  induction f as [id p|l IH|g IH|g IH] using frame_ind'; intros Hg.
  - cbn. destruct p; discriminate.
  - induction l as [|x r IHr]; [cbn; discriminate|].
    rewrite run_seq_cons. destruct Hg as [Hx Hr]. inversion IH as [|? ? IHx IHrest]; subst.
    pose proof (IHx Hx) as Hx'. specialize (IHr IHrest Hr).
    destruct (run x) as [o lg] eqn:Ex. destruct o.
    + destruct (run (Seq r)) as [o' lg']. exact IHr.
    + cbn. discriminate.
    + exfalso. apply Hx'. reflexivity.
  - cbn [run]. cbn in Hg. pose proof (IH Hg) as H. destruct (run g) as [o lg]. destruct o; cbn in *; congruence.
  - destruct Hg as [Hg Hr]. destruct g as [| |g'|]; try contradiction.
    pose proof (IH Hg) as H. pose proof (run_recover_not_panicking g') as Hp.
    cbn [run] in *. destruct (run g') as [o lg]. destruct o; cbn in *; congruence.
Qed.

(* a frame under recover always ends normally when nothing below can kill the process *)
Theorem recover_replies f : guarded f -> fst (run (Recover f)) = Done.
Proof.
  intros Hg. pose proof (guarded_never_dead (Recover f) Hg) as H1. pose proof (run_recover_not_panicking f) as H2.
  destruct (fst (run (Recover f))); congruence.
Qed.

Lemma guarded_items base wrap ps : (forall f, guarded f -> guarded (wrap f)) ->
  guarded (Seq (items base wrap ps)).
Proof.
  intros Hw. unfold items. generalize (combine (seq 0 (length ps)) ps). intros l.
  induction l as [|x r IH]; cbn; [exact I|]. split; [apply Hw; exact I|exact IH].
Qed.

Lemma guarded_seq_app l1 l2 : guarded (Seq l1) -> guarded (Seq l2) -> guarded (Seq (l1 ++ l2)).
Proof. induction l1 as [|x r IH]; cbn; [auto|]. intros [Hx Hr] H2. split; [exact Hx|apply IH; assumption]. Qed.

(* the library's shapes reply for every input: whatever leaf panics, the process survives and Invoke
   returns a response *)
Theorem plain_always_replies route auth body : fst (run (shape_plain route auth body)) = Done.
Proof. apply recover_replies. cbn. auto. Qed.

(* Init is not such a shape: it replies exactly when nothing in it panics *)
Theorem init_replies_iff_no_panic creator validate save :
  fst (run (shape_init creator validate save)) = Done <-> creator = false /\ validate = false /\ save = false.
Proof. destruct creator, validate, save; cbn; split; intros H; try discriminate; try (destruct H as (? & ? & ?); discriminate); auto. Qed.

Theorem batch_always_replies pre txs swaps keys post : fst (run (shape_batch pre txs swaps keys post)) = Done.
Proof.
  apply recover_replies. change (guarded (Seq ([Leaf (0, 1)%N pre] ++ (items 1 Recover txs ++ items 2 Recover swaps ++ items 3 Recover keys ++ [Leaf (0, 2)%N post])))).
  repeat apply guarded_seq_app; try (apply guarded_items; auto); cbn; auto.
Qed.

Theorem tasks_always_reply pre predict tasks post : fst (run (shape_tasks pre predict tasks post)) = Done.
Proof.
  apply recover_replies. change (guarded (Seq ([Leaf (0, 1)%N pre] ++ (items 4 (fun f => Go (Recover f)) predict ++ items 1 Recover tasks ++ [Leaf (0, 2)%N post])))).
  repeat apply guarded_seq_app; try (apply guarded_items; cbn; auto); cbn; auto.
Qed.

(* the pinned commit's shape does not: one panicking prediction goroutine kills the process, and a
   panicking task takes the rest of the list with it *)
Theorem tasks_pinned_refuted :
  fst (run (shape_tasks_pinned false [true] [false] false)) = Dead /\
  item_log 1 3 (snd (run (shape_tasks_pinned false [] [false; true; false] false))) = [Some true; Some false; None].
Proof. split; vm_compute; reflexivity. Qed.

(* ---- a panic fails only its own item -------------------------------------------------------- *)
Lemma run_items_recover base ps : forall k,
  run (Seq (List.map (fun ip => Recover (Leaf (base, N.of_nat (fst ip)) (snd ip))) (combine (seq k (length ps)) ps))) =
  (Done, List.map (fun ip => (base, N.of_nat (fst ip), negb (snd ip))) (combine (seq k (length ps)) ps)).
Proof.
  induction ps as [|p r IH]; intros k; [reflexivity|].
  cbn [length seq combine List.map]. rewrite run_seq_cons, IH. destruct p; reflexivity.
Qed.

Lemma run_seq_app_done l1 l2 lg1 : run (Seq l1) = (Done, lg1) -> run (Seq (l1 ++ l2)) = let '(o, lg2) := run (Seq l2) in (o, lg1 ++ lg2).
Proof.
  revert lg1. induction l1 as [|x r IH]; intros lg1.
  - intros H. assert (lg1 = []) as -> by (cbn in H; congruence). cbn [app]. destruct (run (Seq l2)); reflexivity.
  - rewrite <- app_comm_cons, !run_seq_cons. destruct (run x) as [o lg]. destruct o; try discriminate.
    destruct (run (Seq r)) as [o' lg'] eqn:Er. intros [= -> <-]. rewrite (IH lg' eq_refl).
    destruct (run (Seq l2)) as [o2 lg2]. rewrite app_assoc. reflexivity.
Qed.


Lemma run_recover_seq l : run (Recover (Seq l)) = let '(o, lg) := run (Seq l) in (match o with Panicking => Done | _ => o end, lg).
Proof. reflexivity. Qed.

Lemma find_app_skip (P : N * N * bool -> bool) l1 l2 : (forall e, In e l1 -> P e = false) -> List.find P (l1 ++ l2) = List.find P l2.
Proof. induction l1 as [|x r IH]; intros H; [reflexivity|]. cbn. rewrite H by (left; reflexivity). apply IH. intros e He. apply H. right. exact He. Qed.

Lemma item_log_own base ps (rest : list (N * N * bool)) : forall k,
  List.map (fun i => match List.find (fun e => bool_decide (fst e = (base, N.of_nat i)))
                         (List.map (fun ip => (base, N.of_nat (fst ip), negb (snd ip))) (combine (seq k (length ps)) ps) ++ rest)
                     with Some e => Some (snd e) | None => None end) (seq k (length ps))
  = List.map (fun p => Some (negb p)) ps.
Proof.
  induction ps as [|p r IH]; intros k; [reflexivity|]. cbn [length seq combine List.map app].
  f_equal.
  - cbn [List.find fst snd]. rewrite bool_decide_true by reflexivity. reflexivity.
  - rewrite <- (IH (S k)).
    apply map_ext_in. intros i Hi. apply in_seq in Hi. cbn [List.find fst].
    rewrite bool_decide_false; [reflexivity|]. intros [= H]. lia.
Qed.

(* in a batch whose decoding does not panic, every transaction runs, and completes iff it does not
   panic itself - whatever the other transactions, swap answers and swap keys do *)
Theorem batch_item_isolation txs swaps keys post :
  item_log 1 (length txs) (snd (run (shape_batch false txs swaps keys post))) = List.map (fun p => Some (negb p)) txs.
Proof.
  unfold shape_batch. rewrite run_recover_seq, run_seq_cons.
  change (run (Leaf (0, 1)%N false)) with (Done, [(0%N, 1%N, true)]). cbn iota beta.
  pose proof (run_items_recover 1 txs 0) as Ht. fold (items 1 Recover txs) in Ht.
  rewrite (run_seq_app_done _ _ _ Ht).
  destruct (run (Seq (items 2 Recover swaps ++ items 3 Recover keys ++ [Leaf (0, 2)%N post]))) as [o lg2] eqn:E2.
  cbn [snd]. unfold item_log. cbn [app].
  transitivity (List.map (fun i => match List.find (fun e => bool_decide (fst e = (1%N, N.of_nat i)))
                         (List.map (fun ip => (1%N, N.of_nat (fst ip), negb (snd ip))) (combine (seq 0 (length txs)) txs) ++ lg2)
                     with Some e => Some (snd e) | None => None end) (seq 0 (length txs))).
  - destruct o; cbn [snd]; apply map_ext_in; intros i _; cbn [List.find fst]; rewrite bool_decide_false by discriminate; reflexivity.
  - apply item_log_own.
Qed.
