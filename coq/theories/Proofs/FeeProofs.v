(* Proofs about Model/Fee.v *)
From Fnd Require Import Base.Prelude Model.Balance Model.Fee Proofs.BalanceProofs.
Local Open Scope Z_scope.

Definition clamp (cap x : Z) : Z := if 0 <? cap then Z.min cap x else x.

(* the share of the amount, converted by the buyToken rate when the fee currency is foreign *)
Definition conv_fee (env : tenv) (st : tstate) (a : Z) : res Z :=
  let f := ts_fee st in
  let raw := a * f_share f / dec8 in
  if N.eqb (f_cur f) (e_sym env) then Ok raw
  else match find_rate (ts_rates st) DBuy (f_cur f) with
       | Some r => Ok (raw * r_rate r / dec8)
       | None => Err EFeeCurrency
       end.

Theorem calc_fee_closed_form env st a :
  f_set (ts_fee st) = true -> f_share (ts_fee st) <> 0 ->
  calc_fee env st a =
  (c <- conv_fee env st a ;; Ok (clamp (f_cap (ts_fee st)) (Z.max (f_floor (ts_fee st)) c), f_cur (ts_fee st))).
Proof.
  intros Hs Hsh. unfold calc_fee, conv_fee. rewrite Hs. cbn [negb orb].
  destruct (Z.eqb_spec (f_share (ts_fee st)) 0) as [E|_]; [contradiction|].
  set (raw := a * f_share (ts_fee st) / dec8).
  assert (Hc : forall c, (if (0 <? f_cap (ts_fee st)) && (f_cap (ts_fee st) <? (if c <? f_floor (ts_fee st) then f_floor (ts_fee st) else c))
                then f_cap (ts_fee st) else (if c <? f_floor (ts_fee st) then f_floor (ts_fee st) else c))
               = clamp (f_cap (ts_fee st)) (Z.max (f_floor (ts_fee st)) c)).
  { intros c. unfold clamp. destruct (Z.ltb_spec c (f_floor (ts_fee st))); destruct (Z.ltb_spec 0 (f_cap (ts_fee st))); cbn [andb];
      try match goal with |- context [?x <? ?y] => destruct (Z.ltb_spec x y) end; lia. }
  destruct (N.eqb (f_cur (ts_fee st)) (e_sym env)); cbn [rbind].
  - rewrite Hc. reflexivity.
  - destruct (find_rate (ts_rates st) DBuy (f_cur (ts_fee st))); cbn [rbind]; [rewrite Hc|]; reflexivity.
Qed.

Theorem fee_zero_when_unset env st a :
  f_set (ts_fee st) = false \/ f_share (ts_fee st) = 0 -> calc_fee env st a = Ok (0, e_sym env).
Proof.
  intros [H|H]; unfold calc_fee; rewrite H; cbn [negb orb]; [reflexivity|].
  rewrite Z.eqb_refl, orb_true_r. reflexivity.
Qed.

Theorem fee_le_cap env st a f c :
  calc_fee env st a = Ok (f, c) -> f_set (ts_fee st) = true -> f_share (ts_fee st) <> 0 ->
  0 < f_cap (ts_fee st) -> f <= f_cap (ts_fee st).
Proof.
  intros E Hs Hsh Hcap. rewrite calc_fee_closed_form in E by assumption.
  destruct (conv_fee env st a) as [x|e]; cbn [rbind] in E; [|discriminate].
  injection E as <- _. unfold clamp. destruct (Z.ltb_spec 0 (f_cap (ts_fee st))); lia.
Qed.

Theorem fee_ge_floor env st a f c :
  calc_fee env st a = Ok (f, c) -> f_set (ts_fee st) = true -> f_share (ts_fee st) <> 0 ->
  (f_cap (ts_fee st) <= 0 \/ f_floor (ts_fee st) <= f_cap (ts_fee st)) -> f_floor (ts_fee st) <= f.
Proof.
  intros E Hs Hsh Hcap. rewrite calc_fee_closed_form in E by assumption.
  destruct (conv_fee env st a) as [x|e]; cbn [rbind] in E; [|discriminate].
  injection E as <- _. unfold clamp. destruct (Z.ltb_spec 0 (f_cap (ts_fee st))); lia.
Qed.

Lemma div_dec8_mono x y : x <= y -> x / dec8 <= y / dec8.
Proof. intros H. apply Z.div_le_mono; [unfold dec8; lia|exact H]. Qed.

Theorem fee_monotone env st a a' f f' c c' :
  0 <= f_share (ts_fee st) -> (forall r, In r (ts_rates st) -> 0 <= r_rate r) -> a <= a' ->
  calc_fee env st a = Ok (f, c) -> calc_fee env st a' = Ok (f', c') -> f <= f'.
Proof.
  intros Hsh Hr Ha E E'.
  destruct (f_set (ts_fee st)) eqn:Hs; [|rewrite fee_zero_when_unset in E, E' by tauto; injection E as <- _; injection E' as <- _; lia].
  destruct (Z.eq_dec (f_share (ts_fee st)) 0) as [H0|H0];
    [rewrite fee_zero_when_unset in E, E' by tauto; injection E as <- _; injection E' as <- _; lia|].
  rewrite calc_fee_closed_form in E, E' by assumption. unfold conv_fee in E, E'.
  assert (Hraw : a * f_share (ts_fee st) / dec8 <= a' * f_share (ts_fee st) / dec8) by (apply div_dec8_mono; nia).
  destruct (N.eqb (f_cur (ts_fee st)) (e_sym env)); cbn [rbind] in E, E'.
  - injection E as <- _. injection E' as <- _. unfold clamp.
    destruct (0 <? f_cap (ts_fee st)); lia.
  - destruct (find_rate (ts_rates st) DBuy (f_cur (ts_fee st))) as [r|] eqn:Ef; cbn [rbind] in E, E'; [|discriminate].
    assert (0 <= r_rate r).
    { apply Hr. unfold find_rate in Ef. apply find_some in Ef. tauto. }
    assert (a * f_share (ts_fee st) / dec8 * r_rate r / dec8 <= a' * f_share (ts_fee st) / dec8 * r_rate r / dec8)
      by (apply div_dec8_mono; nia).
    injection E as <- _. injection E' as <- _. unfold clamp. destruct (0 <? f_cap (ts_fee st)); lia.
Qed.

(* setFee accepts only: share <= 100 %, ordered limits, known currency *)
Theorem set_fee_guard env st s cur share floor cap st' :
  t_apply env st (OSetFee s cur share floor cap) = Ok st' ->
  s = e_feesetter env /\ 0 <= share <= dec8 /\ 0 <= floor /\ 0 <= cap /\ (cap = 0 \/ floor <= cap) /\
  (cur = e_sym env \/ exists r, In r (ts_rates st) /\ r_cur r = cur) /\
  ts_fee st' = FeeCfg true cur share floor cap /\ ts_bal st' = ts_bal st.
Proof.
  cbn [t_apply].
  destruct (Z.ltb_spec share 0), (Z.ltb_spec floor 0), (Z.ltb_spec cap 0); cbn [orb]; try discriminate.
  destruct (N.eqb_spec s (e_feesetter env)) as [->|]; cbn [negb]; [|discriminate].
  destruct (Z.ltb_spec dec8 share); [discriminate|].
  destruct (Z.ltb_spec 0 cap), (Z.ltb_spec cap floor); cbn [andb]; try discriminate;
  (destruct (N.eqb_spec cur (e_sym env)) as [->|Hc]; cbn [orb];
   [intros [= <-]; cbn; repeat split; try lia; auto|
    destruct (existsb _ _) eqn:Ex; [|discriminate]; intros [= <-]; cbn; repeat split; try lia; auto;
    right; apply existsb_exists in Ex as [r [Hin Hr]]; exists r; split; [exact Hin|apply N.eqb_eq, Hr]]).
Qed.

(* ---- settlement ---------------------------------------------------------------- *)
Definition fee_key (env : tenv) (st : tstate) (c : N) (x : N) : N * N * N :=
  if N.eqb (f_cur (ts_fee st)) (e_sym env) then tok x else allowed x c.

Theorem transfer_settles env st s r a st' :
  t_apply env st (OTransfer s r a) = Ok st' ->
  0 < a /\ s <> r /\ a <= bget (ts_bal st) (tok s) /\
  ts_fee st' = ts_fee st /\ ts_feeaddr st' = ts_feeaddr st /\ ts_rates st' = ts_rates st /\
  ts_emission st' = ts_emission st /\
  exists f c, calc_transfer_fee env st a s r = Ok (f, c) /\
   ((f <= 0 /\ forall k, bget (ts_bal st') k = bget (ts_bal st) k - at_key (tok s) k a + at_key (tok r) k a) \/
    (0 < f /\ exists fa, ts_feeaddr st = Some fa /\
       forall k, bget (ts_bal st') k =
                 bget (ts_bal st) k - at_key (tok s) k a + at_key (tok r) k a
                 - at_key (fee_key env st c s) k f + at_key (fee_key env st c fa) k f)).
Proof.
  cbn [t_apply]. destruct (Z.ltb_spec a 0); [discriminate|].
  destruct (N.eqb_spec s r) as [|Hsr]; [discriminate|].
  destruct (Z.eqb_spec a 0); [discriminate|].
  destruct (bmove (ts_bal st) (tok s) (tok r) a) as [b1|e] eqn:E1; cbn [rbind]; [|discriminate].
  apply bmove_spec in E1 as (_ & Hle & H1).
  unfold transfer_fee.
  destruct (f_set (ts_fee st)) eqn:Hset, (ts_feeaddr st) as [fa|] eqn:Hfa; try discriminate.
  - destruct (N.eqb (f_cur (ts_fee st)) 0) eqn:Hc0; cbn [andb]; [discriminate|].
    destruct (calc_transfer_fee env st a s r) as [[f c]|e] eqn:Ef; cbn [rbind fst snd]; [|discriminate].
    destruct (Z.leb_spec f 0) as [Hf|Hf].
    + intros [= <-]. cbn. repeat split; try lia; auto. exists f, c. split; [reflexivity|]. left. split; [lia|exact H1].
    + unfold fee_key. destruct (N.eqb (f_cur (ts_fee st)) (e_sym env)) eqn:Eown.
      * destruct (bmove b1 (tok s) (tok fa) f) as [b2|e] eqn:E2; cbn [rbind]; [|discriminate].
        intros [= <-]. apply bmove_spec in E2 as (_ & _ & H2). cbn. repeat split; try lia; auto.
        exists f, c. split; [reflexivity|]. right. split; [lia|]. exists fa. split; [reflexivity|].
        intros k. rewrite H2, H1. reflexivity.
      * destruct (bmove b1 (allowed s c) (allowed fa c) f) as [b2|e] eqn:E2; cbn [rbind]; [|discriminate].
        intros [= <-]. apply bmove_spec in E2 as (_ & _ & H2). cbn. repeat split; try lia; auto.
        exists f, c. split; [reflexivity|]. right. split; [lia|]. exists fa. split; [reflexivity|].
        intros k. rewrite H2, H1. reflexivity.
  - cbn [andb]. destruct (calc_transfer_fee env st a s r) as [[f c]|e] eqn:Ef; cbn [rbind fst snd]; [|discriminate].
    destruct (Z.leb_spec f 0) as [Hf|Hf].
    + intros [= <-]. cbn. repeat split; try lia; auto. exists f, c. split; [reflexivity|]. left. split; [lia|exact H1].
    + unfold fee_key. destruct (N.eqb (f_cur (ts_fee st)) (e_sym env)) eqn:Eown.
      * destruct (bmove b1 (tok s) (tok fa) f) as [b2|e] eqn:E2; cbn [rbind]; [|discriminate].
        intros [= <-]. apply bmove_spec in E2 as (_ & _ & H2). cbn. repeat split; try lia; auto.
        exists f, c. split; [reflexivity|]. right. split; [lia|]. exists fa. split; [reflexivity|].
        intros k. rewrite H2, H1. reflexivity.
      * destruct (bmove b1 (allowed s c) (allowed fa c) f) as [b2|e] eqn:E2; cbn [rbind]; [|discriminate].
        intros [= <-]. apply bmove_spec in E2 as (_ & _ & H2). cbn. repeat split; try lia; auto.
        exists f, c. split; [reflexivity|]. right. split; [lia|]. exists fa. split; [reflexivity|].
        intros k. rewrite H2, H1. reflexivity.
  - cbn [andb]. destruct (calc_transfer_fee env st a s r) as [[f c]|e] eqn:Ef; cbn [rbind fst snd]; [|discriminate].
    destruct (Z.leb_spec f 0) as [Hf|Hf]; [|discriminate].
    intros [= <-]. cbn. repeat split; try lia; auto. exists f, c. split; [reflexivity|]. left. split; [lia|exact H1].
Qed.

(* same user id on both sides, no fee share, or fee not configured: no fee is charged *)
Theorem transfer_fee_zero_cases env st a s r :
  (same_user env s r = true \/ f_set (ts_fee st) = false \/ f_share (ts_fee st) = 0) ->
  forall fc, calc_transfer_fee env st a s r = Ok fc -> fst fc = 0.
Proof.
  intros H fc. unfold calc_transfer_fee.
  destruct H as [H|H].
  - destruct (calc_fee env st a) as [x|e]; cbn [rbind]; [|discriminate]. rewrite H. cbn. intros [= <-]. reflexivity.
  - rewrite fee_zero_when_unset by exact H. cbn [rbind fst]. rewrite andb_false_r. intros [= <-]. reflexivity.
Qed.

Theorem buy_settles env st s a cur st' :
  t_apply env st (OBuy s a cur) = Ok st' ->
  exists r, find_rate (ts_rates st) DBuy cur = Some r /\ in_limit r a = true /\ 0 < a /\ s <> e_issuer env /\
    price r a = a * r_rate r / dec8 /\
    price r a <= bget (ts_bal st) (allowed s cur) /\
    ts_fee st' = ts_fee st /\ ts_rates st' = ts_rates st /\ ts_emission st' = ts_emission st /\
    forall k, bget (ts_bal st') k =
      bget (ts_bal st) k - at_key (allowed s cur) k (price r a) + at_key (allowed (e_issuer env) cur) k (price r a)
      - at_key (tok (e_issuer env)) k a + at_key (tok s) k a.
Proof.
  cbn [t_apply]. destruct (Z.ltb_spec a 0); [discriminate|].
  destruct (N.eqb_spec s (e_issuer env)) as [|Hs]; [discriminate|].
  destruct (Z.eqb_spec a 0); [discriminate|].
  destruct (find_rate (ts_rates st) DBuy cur) as [r|]; [|discriminate].
  destruct (in_limit r a) eqn:Hl; cbn [negb]; [|discriminate].
  destruct (bmove (ts_bal st) _ _ (price r a)) as [b1|e] eqn:E1; cbn [rbind]; [|discriminate].
  destruct (bmove b1 _ _ a) as [b2|e] eqn:E2; cbn [rbind]; [|discriminate].
  intros [= <-]. apply bmove_spec in E1 as (_ & Hle & H1). apply bmove_spec in E2 as (_ & _ & H2).
  exists r. cbn. repeat split; try lia; auto. intros k. rewrite H2, H1. reflexivity.
Qed.

Theorem buyback_settles env st s a cur st' :
  t_apply env st (OBuyBack s a cur) = Ok st' ->
  exists r, find_rate (ts_rates st) DBack cur = Some r /\ in_limit r a = true /\ 0 < a /\ s <> e_issuer env /\
    price r a = a * r_rate r / dec8 /\
    price r a <= bget (ts_bal st) (allowed (e_issuer env) cur) /\
    ts_fee st' = ts_fee st /\ ts_rates st' = ts_rates st /\ ts_emission st' = ts_emission st /\
    forall k, bget (ts_bal st') k =
      bget (ts_bal st) k - at_key (allowed (e_issuer env) cur) k (price r a) + at_key (allowed s cur) k (price r a)
      - at_key (tok s) k a + at_key (tok (e_issuer env)) k a.
Proof.
  cbn [t_apply]. destruct (Z.ltb_spec a 0); [discriminate|].
  destruct (N.eqb_spec s (e_issuer env)) as [|Hs]; [discriminate|].
  destruct (Z.eqb_spec a 0); [discriminate|].
  destruct (find_rate (ts_rates st) DBack cur) as [r|]; [|discriminate].
  destruct (in_limit r a) eqn:Hl; cbn [negb]; [|discriminate].
  destruct (bmove (ts_bal st) _ _ (price r a)) as [b1|e] eqn:E1; cbn [rbind]; [|discriminate].
  destruct (bmove b1 _ _ a) as [b2|e] eqn:E2; cbn [rbind]; [|discriminate].
  intros [= <-]. apply bmove_spec in E1 as (_ & Hle & H1). apply bmove_spec in E2 as (_ & _ & H2).
  exists r. cbn. repeat split; try lia; auto. intros k. rewrite H2, H1. reflexivity.
Qed.

Theorem limits_respected r a : in_limit r a = true <-> r_min r <= a /\ (r_max r = 0 \/ a <= r_max r).
Proof.
  unfold in_limit. rewrite andb_true_iff, orb_true_iff, !Z.leb_le, Z.eqb_eq. tauto.
Qed.

(* a failing operation changes nothing; over whole histories all balances stay >= 0 *)
Theorem fail_unchanged env st o e : snd (t_step env st o) = Some e -> fst (t_step env st o) = st.
Proof. unfold t_step. destruct (t_apply env st o); [discriminate|reflexivity]. Qed.

Lemma transfer_fee_nonneg env st b a s r b' : nonneg b -> transfer_fee env st b a s r = Ok b' -> nonneg b'.
Proof.
  intros Hn. unfold transfer_fee.
  assert (H : forall x, (x = true -> ts_feeaddr st <> None) -> (if x && (f_cur (ts_fee st) =? 0)%N then Err EFeeCurrency else
     fc <- calc_transfer_fee env st a s r;;
     (if fc.1 <=? 0 then Ok b else
       match ts_feeaddr st with
       | Some fa => if (f_cur (ts_fee st) =? e_sym env)%N then bmove b (tok s) (tok fa) fc.1
                    else bmove b (allowed s fc.2) (allowed fa fc.2) fc.1
       | None => Err EFeeAddr end)) = Ok b' -> nonneg b').
  { intros x _. destruct (x && _); [discriminate|].
    destruct (calc_transfer_fee env st a s r) as [fc|]; cbn [rbind]; [|discriminate].
    destruct (fc.1 <=? 0); [intros [= <-]; exact Hn|].
    destruct (ts_feeaddr st) as [fa|]; [|discriminate].
    destruct (_ =? _)%N; intros E; eapply bmove_nonneg; eassumption. }
  destruct (f_set (ts_fee st)), (ts_feeaddr st) eqn:Efa; try discriminate; apply H; congruence.
Qed.

Theorem apply_nonneg env st o st' : nonneg (ts_bal st) -> t_apply env st o = Ok st' -> nonneg (ts_bal st').
Proof.
  intros Hn. destruct o; cbn [t_apply].
  - destruct (negb _); [discriminate|]. destruct (a <? 0); [discriminate|]. destruct (a =? 0); [discriminate|].
    destruct (badd _ _ _) as [b|] eqn:E; cbn [rbind]; [|discriminate]. intros [= <-]. cbn.
    eapply badd_nonneg; eassumption.
  - destruct (a <? 0); [discriminate|]. destruct (_ =? _)%N; [discriminate|]. destruct (a =? 0); [discriminate|].
    destruct (bmove _ _ _ _) as [b1|] eqn:E1; cbn [rbind]; [|discriminate].
    destruct (transfer_fee _ _ _ _ _ _) as [b2|] eqn:E2; cbn [rbind]; [|discriminate].
    intros [= <-]. cbn. eapply transfer_fee_nonneg; [|exact E2]. eapply bmove_nonneg; eassumption.
  - destruct (_ || _); [discriminate|]. destruct (negb _); [discriminate|]. destruct (dec8 <? share); [discriminate|].
    destruct (_ && _); [discriminate|]. destruct (_ || _); [|discriminate]. intros [= <-]. exact Hn.
  - destruct (negb _); [discriminate|]. intros [= <-]. exact Hn.
  - destruct (r <? 0); [discriminate|]. destruct (negb _); [discriminate|]. destruct (r =? 0); [discriminate|].
    destruct (_ =? _)%N; [discriminate|]. intros [= <-]. exact Hn.
  - destruct (_ || _); [discriminate|]. destruct (negb _); [discriminate|]. destruct (_ && _); [discriminate|].
    destruct (set_limits _ _ _ _ _); [|discriminate]. intros [= <-]. exact Hn.
  - destruct (a <? 0); [discriminate|]. destruct (_ =? _)%N; [discriminate|]. destruct (a =? 0); [discriminate|].
    destruct (find_rate _ _ _) as [r|]; [|discriminate]. destruct (negb _); [discriminate|].
    destruct (bmove (ts_bal st) _ _ _) as [b1|] eqn:E1; cbn [rbind]; [|discriminate].
    destruct (bmove b1 _ _ _) as [b2|] eqn:E2; cbn [rbind]; [|discriminate].
    intros [= <-]. cbn. eapply bmove_nonneg; [|exact E2]. eapply bmove_nonneg; eassumption.
  - destruct (a <? 0); [discriminate|]. destruct (_ =? _)%N; [discriminate|]. destruct (a =? 0); [discriminate|].
    destruct (find_rate _ _ _) as [r|]; [|discriminate]. destruct (negb _); [discriminate|].
    destruct (bmove (ts_bal st) _ _ _) as [b1|] eqn:E1; cbn [rbind]; [|discriminate].
    destruct (bmove b1 _ _ _) as [b2|] eqn:E2; cbn [rbind]; [|discriminate].
    intros [= <-]. cbn. eapply bmove_nonneg; [|exact E2]. eapply bmove_nonneg; eassumption.
Qed.

Theorem run_nonneg env os : forall st, nonneg (ts_bal st) -> nonneg (ts_bal (fst (t_run env st os))).
Proof.
  induction os as [|o os IH]; intros st Hn; [exact Hn|]. cbn [t_run]. unfold t_step.
  destruct (t_apply env st o) as [st'|e] eqn:E.
  - specialize (IH st' (apply_nonneg _ _ _ _ Hn E)). destruct (t_run env st' os). exact IH.
  - specialize (IH st Hn). destruct (t_run env st os). exact IH.
Qed.
