(* Proofs about Model/Paging.v *)
From Fnd Require Import Base.Prelude Model.Paging.
From stdpp Require Import lexico.

Local Notation klt := (@lexico (list N) _).

Lemma kltb_spec x y : kltb x y = true <-> klt x y.
Proof.
  unfold kltb. destruct (trichotomyT lexico x y) as [[H|H]|H]; split; try discriminate; auto.
  - intros H'. subst. exfalso. eapply (irreflexivity klt). exact H'.
  - intros H'. exfalso. eapply (irreflexivity klt). etransitivity; eassumption.
Qed.

Lemma kleb_spec x y : kleb x y = true <-> (x = y \/ klt x y).
Proof.
  unfold kleb, kltb. destruct (trichotomyT lexico y x) as [[H|H]|H]; cbn; split; auto; try discriminate.
  - intros [->|H']; exfalso; [eapply (irreflexivity klt); exact H|eapply (irreflexivity klt); etransitivity; eassumption].
Qed.

Lemma kleb_trans x y z : kleb x y = true -> kleb y z = true -> kleb x z = true.
Proof.
  rewrite !kleb_spec. intros [->|H1] [->|H2]; auto. right. etransitivity; eassumption.
Qed.
Lemma kleb_refl x : kleb x x = true.
Proof. apply kleb_spec. left. reflexivity. Qed.
Lemma kltb_kleb x y : kltb x y = true -> kleb y x = false.
Proof. unfold kleb. intros ->. reflexivity. Qed.
Lemma kltb_nil_l x : kltb [] x = true <-> x <> [].
Proof. rewrite kltb_spec. destruct x; cbn; split; auto; congruence. Qed.

Lemma klt_cons a p b q : klt (a :: p) (b :: q) <-> ((a < b)%N \/ (a = b /\ klt p q)).
Proof. split; intros H; exact H. Qed.

Lemma klt_nil_r (x : list N) : ~ klt x [].
Proof. destruct x; cbn; tauto. Qed.
Lemma klt_nil_cons (b : N) q : klt [] (b :: q).
Proof. exact I. Qed.

Lemma kleb_cons a p b q : kleb (a :: p) (b :: q) = true <-> ((a < b)%N \/ (a = b /\ kleb p q = true)).
Proof.
  rewrite !kleb_spec, klt_cons. split.
  - intros [H|[H|[H1 H2]]]; [injection H as -> ->; right; split; [reflexivity|left; reflexivity]|left; exact H|right; split; [exact H1|right; exact H2]].
  - intros [H|[-> [->|H]]]; [right; left; exact H|left; reflexivity|right; right; split; [reflexivity|exact H]].
Qed.
Lemma kltb_cons a p b q : kltb (a :: p) (b :: q) = true <-> ((a < b)%N \/ (a = b /\ kltb p q = true)).
Proof. rewrite !kltb_spec, klt_cons. reflexivity. Qed.

(* the keys that begin with a non-empty prefix are exactly those from the prefix (inclusive) to the prefix with its
   last byte incremented (exclusive) *)
Lemma prefix_range (p : list N) (a : N) k :
  has_prefix (p ++ [a]) k = in_range (p ++ [a]) (p ++ [(a + 1)%N]) k.
Proof.
  revert k. induction p as [|c p IH]; intros k.
  - cbn [app]. destruct k as [|b k'].
    + reflexivity.
    + cbn [has_prefix]. rewrite andb_true_r. unfold in_range.
      apply eq_true_iff_eq. rewrite N.eqb_eq, andb_true_iff, kleb_cons, kltb_cons. split.
      * intros ->. split; [right; split; [reflexivity|]|left; lia].
        apply kleb_spec. destruct k'; [left; reflexivity|right; exact I].
      * intros [[H1|[H1 _]] [H2|[H2 H3]]]; try lia. apply kltb_spec in H3. exfalso. eapply klt_nil_r. exact H3.
  - cbn [app]. destruct k as [|b k'].
    + reflexivity.
    + cbn [has_prefix]. rewrite IH. unfold in_range.
      apply eq_true_iff_eq. rewrite !andb_true_iff, N.eqb_eq, kleb_cons, kltb_cons. split.
      * intros [-> [H1 H2]]. split; right; split; auto.
      * intros [[H1|[H1 H1']] [H2|[H2 H2']]]; try lia. subst. auto.
Qed.

Lemma pfx_range k : has_prefix pfx k = in_range pfx pfx_end k.
Proof. exact (prefix_range [47; 116; 114; 97; 110; 115; 102; 101; 114; 47; 102; 114; 111; 109]%N 47%N k). Qed.

Section proofs.
  Context {V : Type}.
  Notation kv := (list N * V)%type.
  Definition key_lt (a b : kv) : Prop := klt (fst a) (fst b).

  Lemma filter_filter (f g : kv -> bool) l :
    List.filter f (List.filter g l) = List.filter (fun x => f x && g x) l.
  Proof.
    induction l as [|x l IH]; [reflexivity|]. cbn [List.filter].
    destruct (g x) eqn:Eg; cbn [List.filter]; rewrite ?andb_true_r, ?andb_false_r.
    - destruct (f x); rewrite IH; reflexivity.
    - exact IH.
  Qed.

  Lemma filter_sorted (f : kv -> bool) l : StronglySorted key_lt l -> StronglySorted key_lt (List.filter f l).
  Proof.
    induction 1 as [|x l Hs IH Hall]; [constructor|]. cbn [List.filter].
    destruct (f x); [|exact IH]. constructor; [exact IH|].
    rewrite Forall_forall in *. intros y Hy. apply Hall. rewrite elem_of_list_In in *.
    apply filter_In in Hy. tauto.
  Qed.

  (* in a sorted list F1 ++ x :: F2, the elements with key >= key x are exactly x :: F2 *)
  Lemma filter_ge_suffix F1 x F2 : StronglySorted key_lt (F1 ++ x :: F2) ->
    List.filter (fun p => kleb (fst x) (fst p)) (F1 ++ x :: F2) = x :: F2.
  Proof.
    induction F1 as [|y F1 IH]; cbn [app]; intros Hs.
    - inversion Hs as [|? ? Hs' Hall]; subst. cbn [List.filter]. rewrite kleb_refl. f_equal.
      rewrite Forall_forall in Hall. clear Hs.
      induction F2 as [|z F2 IH2]; [reflexivity|]. cbn [List.filter].
      assert (Hz : kleb (fst x) (fst z) = true).
      { apply kleb_spec. right. apply Hall. left. }
      rewrite Hz. f_equal. apply IH2.
      + inversion Hs'; assumption.
      + intros w Hw. apply Hall. right. exact Hw.
    - inversion Hs as [|? ? Hs' Hall]; subst. cbn [List.filter].
      assert (Hy : kleb (fst x) (fst y) = false).
      { apply kltb_kleb. apply kltb_spec. rewrite Forall_forall in Hall. apply Hall.
        apply elem_of_app. right. left. }
      rewrite Hy. apply IH. exact Hs'.
  Qed.

  Definition fr (lo hi : list N) (l : list kv) := List.filter (fun p => in_range lo hi (fst p)) l.

  Lemma fr_next l lo hi F1 x F2 : StronglySorted key_lt l ->
    fr lo hi l = F1 ++ x :: F2 -> fr (fst x) hi l = x :: F2.
  Proof.
    intros Hs HF. unfold fr in *.
    assert (Hx : in_range lo hi (fst x) = true).
    { assert (Hin : In x (List.filter (fun p => in_range lo hi (fst p)) l)).
      { rewrite HF. apply in_app_iff. right. left. reflexivity. }
      apply filter_In in Hin. tauto. }
    unfold in_range in Hx. apply andb_true_iff in Hx as [Hlo Hhi].
    rewrite <- (filter_ge_suffix F1 x F2).
    - rewrite <- HF, filter_filter. apply filter_ext. intros p. unfold in_range.
      destruct (kleb (fst x) (fst p)) eqn:E; cbn [andb]; [|reflexivity].
      rewrite (kleb_trans _ _ _ Hlo E). reflexivity.
    - rewrite <- HF. apply filter_sorted, Hs.
  Qed.

  Lemma page_spec l lo hi size bm :
    page l lo hi size bm =
    let F := fr (match bm with [] => lo | _ => bm end) hi l in
    (firstn size F, match skipn size F with x :: _ => fst x | [] => [] end).
  Proof. reflexivity. Qed.

  (* keys in [pfx, pfx ++ maxrune) start with pfx *)
  Lemma in_range_has_prefix pre sfx k : in_range pre (pre ++ sfx) k = true -> has_prefix pre k = true.
  Proof.
    unfold in_range. rewrite andb_true_iff, kleb_spec, kltb_spec.
    revert k. induction pre as [|a p IH]; intros k [Hge Hlt]; [reflexivity|].
    destruct k as [|b k'].
    - destruct Hge as [Hc|Hc]; [discriminate|destruct Hc].
    - cbn [has_prefix]. cbn [app] in Hlt.
      assert (Hab : a = b /\ (p = k' \/ klt p k') /\ klt k' (p ++ sfx)).
      { assert (Hlt' : (b < a)%N \/ (b = a /\ klt k' (p ++ sfx))) by (apply klt_cons; exact Hlt).
        clear Hlt. destruct Hge as [Hc|Hc].
        - injection Hc as Ea Ep. subst b k'. split; [reflexivity|]. split; [left; reflexivity|].
          destruct Hlt' as [Hl|[_ Hl]]; [lia|exact Hl].
        - assert (Hc' : (a < b)%N \/ (a = b /\ klt p k')) by (apply klt_cons; exact Hc).
          destruct Hc' as [Hc'|[Hc1 Hc2]].
          + destruct Hlt' as [Hl|[Hl _]]; lia.
          + subst b. split; [reflexivity|]. split; [right; exact Hc2|].
            destruct Hlt' as [Hl|[_ Hl]]; [lia|exact Hl]. }
      destruct Hab as (-> & H1 & H2). rewrite N.eqb_refl. cbn [andb]. apply IH. split; assumption.
  Qed.

  Lemma all_pages_S f (l : list kv) size bm :
    all_pages (S f) l size bm =
    match query l size bm with
    | inl _ => None
    | inr (items, next) =>
      match next with
      | [] => Some items
      | _ => match all_pages f l size next with Some r => Some (items ++ r) | None => None end
      end
    end.
  Proof. reflexivity. Qed.

  Lemma kleb_nonempty (a : N) p k : kleb (a :: p) k = true -> k <> [].
  Proof. rewrite kleb_spec. intros [E|H] ->; [discriminate|destruct H]. Qed.

  (* MAIN: for every strictly sorted ledger, every page size >= 1, following the returned
     bookmarks from the empty bookmark terminates and concatenates to exactly the entries
     whose key lies in the transfer range, in key order, without duplicates *)
  Theorem pages_partition (l : list kv) (size : Z) : StronglySorted key_lt l -> (1 <= size)%Z ->
    all_pages (S (length l)) l size [] = Some (fr pfx pfx_end l).
  Proof.
    intros Hs Hsz.
    set (hi := pfx_end).
    (* generalised: from any start s with s = pfx (empty bookmark) or s a returned bookmark *)
    assert (G : forall n bm, length (fr (match bm with [] => pfx | _ => bm end) hi l) <= n ->
                (bm = [] \/ (bm <> [] /\ in_range pfx hi bm = true)) ->
                all_pages (S n) l size bm = Some (fr (match bm with [] => pfx | _ => bm end) hi l)).
    { induction n as [|n IH]; intros bm Hlen Hbm.
      - cbn [all_pages]. unfold query. destruct (Z.leb_spec size 0); [lia|].
        assert (Hq : (match bm with
                      | _ :: _ => if has_prefix pfx bm then inr (page l pfx hi (Z.to_nat size) bm) else inl QBookmark
                      | [] => inr (page l pfx hi (Z.to_nat size) bm) end) = inr (page l pfx hi (Z.to_nat size) bm)).
        { destruct Hbm as [->|[Hne Hr]]; [reflexivity|]. destruct bm; [congruence|].
          unfold hi in Hr. rewrite pfx_range, Hr. reflexivity. }
        fold hi. rewrite Hq, page_spec. cbn zeta.
        destruct (fr _ hi l) as [|x F] eqn:EF; [|cbn in Hlen; lia].
        rewrite firstn_nil, skipn_nil. reflexivity.
      - rewrite all_pages_S. unfold query. destruct (Z.leb_spec size 0); [lia|].
        assert (Hq : (match bm with
                      | _ :: _ => if has_prefix pfx bm then inr (page l pfx hi (Z.to_nat size) bm) else inl QBookmark
                      | [] => inr (page l pfx hi (Z.to_nat size) bm) end) = inr (page l pfx hi (Z.to_nat size) bm)).
        { destruct Hbm as [->|[Hne Hr]]; [reflexivity|]. destruct bm; [congruence|].
          unfold hi in Hr. rewrite pfx_range, Hr. reflexivity. }
        fold hi. rewrite Hq, page_spec. cbn zeta.
        set (s := match bm with [] => pfx | _ => bm end) in *.
        set (F := fr s hi l) in *. set (sz := Z.to_nat size).
        assert (Hsz' : (1 <= sz)%nat) by (unfold sz; lia).
        destruct (skipn sz F) as [|x F2] eqn:Esk.
        + rewrite firstn_all2; [reflexivity|]. apply skipn_all_iff in Esk || idtac.
          assert (length (skipn sz F) = 0%nat) by (rewrite Esk; reflexivity).
          rewrite skipn_length in H0. lia.
        + assert (HF : F = firstn sz F ++ x :: F2) by (rewrite <- Esk; symmetry; apply firstn_skipn).
          assert (Hs_lo : kleb pfx s = true).
          { unfold s. destruct Hbm as [->|[Hne Hr]]; [apply kleb_refl|].
            destruct bm; [congruence|]. unfold in_range in Hr. apply andb_true_iff in Hr. tauto. }
          assert (Hx : in_range s hi (fst x) = true).
          { assert (Hin : In x F) by (rewrite HF; apply in_app_iff; right; left; reflexivity).
            unfold F, fr in Hin. apply filter_In in Hin. tauto. }
          assert (Hxr : in_range pfx hi (fst x) = true).
          { unfold in_range in *. apply andb_true_iff in Hx as [H1 H2]. rewrite H2, andb_true_r.
            eapply kleb_trans; eassumption. }
          assert (Hne : fst x <> []).
          { unfold in_range in Hxr. apply andb_true_iff in Hxr as [H1 _]. unfold pfx in H1.
            eapply kleb_nonempty. exact H1. }
          pose proof (fr_next l s hi _ _ _ Hs HF) as Hnext.
          destruct (fst x) as [|c kx] eqn:Ekx; [congruence|].
          specialize (IH (c :: kx)). cbn match in IH. rewrite Hnext in IH.
          rewrite IH.
          * f_equal. symmetry. exact HF.
          * assert (length F = length (firstn sz F) + S (length F2))%nat
              by (rewrite HF at 1; rewrite app_length; reflexivity).
            assert (length (firstn sz F) = sz).
            { apply firstn_length_le. assert (length (skipn sz F) = S (length F2)) by (rewrite Esk; reflexivity).
              rewrite skipn_length in H1. lia. }
            cbn [length]. lia.
          * right. split; [congruence|exact Hxr]. }
    apply (G (length l) []); [|left; reflexivity].
    unfold fr. clear. induction l as [|x l IH]; cbn [List.filter length]; [lia|].
    destruct (in_range _ _ _); cbn [length]; lia.
  Qed.

  (* the listing contains only entries of the range, each once (the ledger has no duplicate keys) *)
  Theorem only_range l lo hi x : In x (fr lo hi l) -> In x l /\ in_range lo hi (fst x) = true.
  Proof. unfold fr. apply filter_In. Qed.

  Theorem listing_sorted l lo hi : StronglySorted key_lt l -> StronglySorted key_lt (fr lo hi l).
  Proof. apply filter_sorted. Qed.

  Theorem bad_size_rejected (l : list kv) size bm : (size <= 0)%Z -> query l size bm = inl QPageSize.
  Proof. intros H. unfold query. destruct (Z.leb_spec size 0); [reflexivity|lia]. Qed.

  Theorem bad_bookmark_rejected (l : list kv) size bm : (0 < size)%Z -> bm <> [] -> has_prefix pfx bm = false ->
    query (V:=V) l size bm = inl QBookmark.
  Proof.
    intros H Hn Hp. unfold query. destruct (Z.leb_spec size 0); [lia|].
    destruct bm; [congruence|]. rewrite Hp. reflexivity.
  Qed.
End proofs.

(* ---- record keys: prefix ++ id lies in the listed range ---------------------------- *)
Lemma klt_app_l p a b : klt a b -> klt (p ++ a) (p ++ b).
Proof.
  induction p as [|x p IH]; intros H; [exact H|]. cbn [app]. apply klt_cons. right. split; [reflexivity|apply IH, H].
Qed.
Lemma kle_prefix p a : kleb p (p ++ a) = true.
Proof.
  apply kleb_spec. destruct a as [|x a]; [left; rewrite app_nil_r; reflexivity|right].
  induction p as [|y p IH]; [exact I|]. cbn [app]. apply klt_cons. right. split; [reflexivity|exact IH].
Qed.
(* every record key - the prefix followed by any id - lies inside the listed range, and nothing else does *)
Theorem record_key_in_range (id : list N) : in_range pfx pfx_end (pfx ++ id) = true.
Proof.
  rewrite <- pfx_range. induction pfx as [|a p IH]; [reflexivity|]. cbn [app has_prefix]. rewrite N.eqb_refl. exact IH.
Qed.
Theorem listed_range_is_prefix (k : list N) : in_range pfx pfx_end k = true <-> exists id, k = pfx ++ id.
Proof.
  rewrite <- pfx_range. split.
  - revert k. induction pfx as [|a p IH]; intros k H; [exists k; reflexivity|].
    destruct k as [|b k']; [discriminate|]. cbn [has_prefix] in H. apply andb_true_iff in H. destruct H as [H1 H2].
    apply N.eqb_eq in H1. subst b. destruct (IH k' H2) as [id ->]. exists id. reflexivity.
  - intros [id ->]. induction pfx as [|a p IH]; [reflexivity|]. cbn [app has_prefix]. rewrite N.eqb_refl. exact IH.
Qed.
(* what the range that ended at prefix + U+10FFFF missed (finding F22): the record of an id that starts with that code point *)
Theorem old_range_missed_a_record :
  exists id, in_range pfx (pfx ++ maxrune) (pfx ++ id) = false /\ in_range pfx pfx_end (pfx ++ id) = true.
Proof. exists [244; 143; 191; 191; 122]%N. split; vm_compute; reflexivity. Qed.

(* ---- the listing in terms of the prefix: every entry whose key begins with the record prefix, and nothing else ---- *)
Section complete.
  Context {V : Type}.
  Notation kv := (list N * V)%type.
  Lemma fr_prefix (l : list kv) : fr pfx pfx_end l = List.filter (fun p => has_prefix pfx (fst p)) l.
  Proof. unfold fr. apply filter_ext. intros p. symmetry. apply pfx_range. Qed.
  Theorem pages_complete (l : list kv) (size : Z) : StronglySorted key_lt l -> (1 <= size)%Z ->
    all_pages (S (length l)) l size [] = Some (List.filter (fun p => has_prefix pfx (fst p)) l).
  Proof. intros Hs Hz. rewrite <- fr_prefix. apply pages_partition; assumption. Qed.
End complete.

(* ---- page sizes beyond the ledger ------------------------------------------------------------ *)
Section clamp.
  Context {V : Type}.
  Notation kv := (list N * V)%type.

  (* a page size beyond the number of ledger entries behaves like the number of entries plus one *)
  Definition clamp (l : list kv) (size : Z) : Z := Z.min size (Z.of_nat (length l) + 1).

  Lemma filter_len (f : kv -> bool) (l : list kv) : (length (List.filter f l) <= length l)%nat.
  Proof. induction l as [|x r IHl]; cbn [List.filter length]; [lia|]. destruct (f x); cbn [length]; lia. Qed.

  Lemma page_big (l : list kv) lo hi n m bm : (length l <= n)%nat -> (length l <= m)%nat ->
    page l lo hi n bm = page l lo hi m bm.
  Proof.
    intros Hn Hm. unfold page.
    set (items := List.filter _ l).
    assert (Hl : (length items <= length l)%nat) by apply filter_len.
    rewrite !firstn_all2 by lia. rewrite !skipn_all2 by lia. reflexivity.
  Qed.

  Lemma query_clamp (l : list kv) size bm : query l size bm = query l (clamp l size) bm.
  Proof.
    unfold clamp. destruct (Z.le_gt_cases size (Z.of_nat (length l) + 1)) as [Hle|Hgt].
    - rewrite Z.min_l by lia. reflexivity.
    - rewrite Z.min_r by lia. unfold query.
      destruct (Z.leb_spec size 0); [lia|]. destruct (Z.leb_spec (Z.of_nat (length l) + 1) 0); [lia|].
      assert (Hp : forall b, page l pfx pfx_end (Z.to_nat size) b =
                             page l pfx pfx_end (Z.to_nat (Z.of_nat (length l) + 1)) b).
      { intros b. apply page_big; lia. }
      destruct bm as [|c r]; [rewrite Hp; reflexivity|]. destruct (has_prefix pfx (c :: r)); [rewrite Hp|]; reflexivity.
  Qed.

  Lemma all_pages_clamp fuel : forall (l : list kv) size bm, all_pages fuel l size bm = all_pages fuel l (clamp l size) bm.
  Proof.
    induction fuel as [|f IH]; intros l size bm; cbn [all_pages]; [reflexivity|].
    rewrite <- query_clamp. destruct (query l size bm) as [e|[items next]]; [reflexivity|].
    destruct next as [|c r]; [reflexivity|]. rewrite IH. reflexivity.
  Qed.
End clamp.
