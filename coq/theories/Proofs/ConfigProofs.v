From Fnd Require Import Base.Prelude Model.Config.

Theorem stored_iff_admin_and_valid adm stored a :
  snd (init adm stored a) = true <->
  (adm = true /\ exists v, decode a = Some v /\ valid v = true /\ fst (init adm stored a) = Some v).
Proof.
  unfold init, init_for. unfold valid in *. destruct adm; cbn [negb].
  2:{ cbn. split; [discriminate|]. intros [Hc _]. discriminate. }
  destruct (decode a) as [v|] eqn:Ed.
  2:{ cbn. split; [discriminate|]. intros [_ [v' [Hc _]]]. discriminate. }
  destruct (valid_for true v) eqn:Ev; cbn.
  - split; [|reflexivity]. intros _. split; [reflexivity|]. exists v. auto.
  - split; [discriminate|]. intros [_ [v' [Hd [Hv _]]]]. injection Hd as <-. congruence.
Qed.

Theorem rejected_keeps_previous adm stored a : snd (init adm stored a) = false -> fst (init adm stored a) = stored.
Proof.
  unfold init, init_for. unfold valid in *. destruct adm; cbn [negb]; [|reflexivity].
  destruct (decode a) as [v|]; [|reflexivity]. destruct (valid_for true v); [discriminate|reflexivity].
Qed.

Theorem no_config_refused : invoke_config None = Err ENoConfig.
Proof. reflexivity. Qed.

(* what is stored is always valid; every later invocation sees exactly the last stored one *)
Definition stored_valid (s : option cconf) : Prop := match s with Some v => valid v = true | None => True end.

Theorem init_preserves_valid adm stored a : stored_valid stored -> stored_valid (fst (init adm stored a)).
Proof.
  intros H. unfold init, init_for. unfold valid in *. destruct adm; cbn [negb]; [|exact H].
  destruct (decode a) as [v|]; [|exact H]. destruct (valid_for true v) eqn:Ev; [exact Ev|exact H].
Qed.

Theorem run_stored_valid l : forall s, stored_valid s -> stored_valid (fst (init_run s l)).
Proof.
  induction l as [|[adm a] l IH]; intros s H; [exact H|]. cbn [init_run].
  pose proof (init_preserves_valid adm s a H) as H1. destruct (init adm s a) as [s' ok].
  specialize (IH s' H1). destruct (init_run s' l). exact IH.
Qed.

(* the configuration in force after a sequence of initialisations is the one of the last
   accepted initialisation (or the initial one when none was accepted) *)
Fixpoint last_accepted (s : option cconf) (l : list (bool * initarg)) : option cconf :=
  match l with
  | [] => s
  | (adm, a) :: r =>
    last_accepted (if adm then match decode a with Some v => if valid v then Some v else s | None => s end else s) r
  end.
Theorem invoke_uses_last_stored l : forall s, fst (init_run s l) = last_accepted s l.
Proof.
  induction l as [|[adm a] l IH]; intros s; [reflexivity|]. cbn [init_run last_accepted].
  assert (E : fst (init adm s a) =
              (if adm then match decode a with Some v => if valid v then Some v else s | None => s end else s)).
  { unfold init, init_for. unfold valid in *. destruct adm; cbn [negb]; [|reflexivity]. destruct (decode a) as [v|]; [|reflexivity].
    destruct (valid_for true v); reflexivity. }
  destruct (init adm s a) as [s' ok]. cbn [fst] in E. rewrite <- E. specialize (IH s').
  destruct (init_run s' l). exact IH.
Qed.

(* the same three facts for a contract built on the base contract alone *)
Theorem base_stored_iff adm stored a :
  snd (init_for false adm stored a) = true <->
  (adm = true /\ exists v, decode a = Some v /\ valid_for false v = true /\ fst (init_for false adm stored a) = Some v).
Proof.
  unfold init_for. destruct adm; cbn [negb].
  2:{ cbn. split; [discriminate|]. intros [Hc _]. discriminate. }
  destruct (decode a) as [v|] eqn:Ed.
  2:{ cbn. split; [discriminate|]. intros [_ [v' [Hc _]]]. discriminate. }
  destruct (valid_for false v) eqn:Ev; cbn.
  - split; [|reflexivity]. intros _. split; [reflexivity|]. exists v. auto.
  - split; [discriminate|]. intros [_ [v' [Hd [Hv _]]]]. injection Hd as <-. congruence.
Qed.
Theorem base_rejected_keeps_previous adm stored a :
  snd (init_for false adm stored a) = false -> fst (init_for false adm stored a) = stored.
Proof.
  unfold init_for. destruct adm; cbn [negb]; [|reflexivity].
  destruct (decode a) as [v|]; [|reflexivity]. destruct (valid_for false v); [discriminate|reflexivity].
Qed.
