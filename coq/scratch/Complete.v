From Fnd Require Import Base.Prelude Model.Paging Proofs.PagingProofs.
Section s.
  Context {V : Type}.
  Notation kv := (list N * V)%type.
  Lemma fr_prefix (l : list kv) : fr pfx pfx_end l = List.filter (fun p => has_prefix pfx (fst p)) l.
  Proof. unfold fr. apply filter_ext. intros p. symmetry. apply pfx_range. Qed.
  Theorem pages_complete (l : list kv) (size : Z) : StronglySorted key_lt l -> (1 <= size)%Z ->
    all_pages (S (length l)) l size [] = Some (List.filter (fun p => has_prefix pfx (fst p)) l).
  Proof. intros Hs Hz. rewrite <- fr_prefix. apply pages_partition; assumption. Qed.
End s.
