From Fnd Require Import Base.Prelude Model.Paging Proofs.PagingProofs.
From stdpp Require Import lexico.
Local Notation klt := (@lexico (list N) _).

Lemma klt_nil_r (x : list N) : ~ klt x [].
Proof. destruct x; cbn; tauto. Qed.
Lemma klt_nil_cons (b : N) q : klt [] (b :: q).
Proof. exact I. Qed.

Lemma kleb_cons a p b q : kleb (a :: p) (b :: q) = true <-> ((a < b)%N \/ (a = b /\ kleb p q = true)).
Proof.
  rewrite !kleb_spec, klt_cons. split.
  - intros [H|[H|[H1 H2]]]; [injection H as -> ->; right; split; [reflexivity|left; reflexivity]|left; exact H|right; split; [exact H1|right; exact H2]].
  - intros [H|[-> [->|H]]]; [right; left; exact H|left; reflexivity|right; right; split; [reflexivity|exact H]].
Qed.
Lemma kltb_cons a p b q : kltb (a :: p) (b :: q) = true <-> ((a < b)%N \/ (a = b /\ kltb p q = true)).
Proof. rewrite !kltb_spec, klt_cons. reflexivity. Qed.

(* the keys that begin with a non-empty prefix are exactly those from the prefix (inclusive) to the prefix with its
   last byte incremented (exclusive) *)
Lemma prefix_range (p : list N) (a : N) k :
  has_prefix (p ++ [a]) k = in_range (p ++ [a]) (p ++ [(a + 1)%N]) k.
Proof.
  revert k. induction p as [|c p IH]; intros k.
  - cbn [app]. destruct k as [|b k'].
    + reflexivity.
    + cbn [has_prefix]. rewrite andb_true_r. unfold in_range.
      apply eq_true_iff_eq. rewrite N.eqb_eq, andb_true_iff, kleb_cons, kltb_cons. split.
      * intros ->. split; [right; split; [reflexivity|]|left; lia].
        apply kleb_spec. destruct k'; [left; reflexivity|right; exact I].
      * intros [[H1|[H1 _]] [H2|[H2 H3]]]; try lia. apply kltb_spec in H3. exfalso. eapply klt_nil_r. exact H3.
  - cbn [app]. destruct k as [|b k'].
    + reflexivity.
    + cbn [has_prefix]. rewrite IH. unfold in_range.
      apply eq_true_iff_eq. rewrite !andb_true_iff, N.eqb_eq, kleb_cons, kltb_cons. split.
      * intros [-> [H1 H2]]. split; right; split; auto.
      * intros [[H1|[H1 H1']] [H2|[H2 H2']]]; try lia. subst. auto.
Qed.
