From Fnd Require Import Base.Prelude Model.Auth Proofs.AuthProofs.

(* core/auth_deprecated.go, CheckSign (kept "for backward compatibility", exported): the older request format - method
   arguments, then the keys, then the signatures; EVERY presented key must carry a valid ed25519 signature over function
   name, arguments and keys (no blank signatures, no other key types); then the access-control service *)
Fixpoint validate_all (kis : list (option keyinfo)) (sigs : list sigv) (msg : list N) : bool :=
  match kis, sigs with
  | k :: kr, sg :: gr => match k with Some ki => sig_valid ki KEd msg sg | None => false end && validate_all kr gr msg
  | [], _ => true
  | _, [] => false
  end.

Definition cs_margs (i : authin) := firstn (a_argc i - 1) (a_args i).
Definition cs_auth (i : authin) := skipn (a_argc i - 1) (a_args i).
Definition cs_signers (i : authin) : nat := (length (cs_auth i) / 2)%nat.
Definition cs_keyargs (i : authin) := firstn (cs_signers i) (cs_auth i).
Definition cs_msg (i : authin) := a_fn i ++ concat (cs_margs i ++ cs_keyargs i).
Definition cs_kis (i : authin) := List.map (lookup_key (a_keys i)) (cs_keyargs i).

Definition check_sign (i : authin) : res N :=
  if (cs_signers i =? 0)%nat then Err ENotSigned else
  if negb (validate_all (cs_kis i) (a_sigs i) (cs_msg i)) then Err EBadSig else
  match a_acl i with
  | AclFail => Err EAcl
  | AclOk addr black grey _ _ => if black then Err EBlack else if grey then Err EGrey else Ok addr
  end.

Lemma validate_all_genuine kis : forall sigs msg, validate_all kis sigs msg = true ->
  forall j k, nth_error kis j = Some k -> exists sg, nth_error sigs j = Some sg /\ genuine k msg sg.
Proof.
  induction kis as [|k0 kr IH]; intros sigs msg Hv j k Hj; [destruct j; discriminate|].
  destruct sigs as [|sg gr]; [discriminate|]. cbn [validate_all] in Hv. apply andb_true_iff in Hv as [H0 Hr].
  destruct j as [|j]; cbn in Hj.
  - injection Hj as <-. exists sg. split; [reflexivity|]. destruct k0 as [ki|]; [|discriminate].
    apply genuineb_spec. eapply sig_valid_genuine, H0.
  - destruct (IH gr msg Hr j k Hj) as (sg' & H1 & H2). exists sg'. split; assumption.
Qed.

(* accepted for A only if the service maps the presented keys to A, A is neither black- nor grey-listed, and EVERY
   presented key - at least one - carries a genuine signature over exactly function name, arguments and keys *)
Theorem check_sign_sound i a : check_sign i = Ok a ->
  exists n ktypes, a_acl i = AclOk a false false n ktypes /\ (1 <= cs_signers i)%nat /\
    forall j k, nth_error (cs_kis i) j = Some k -> exists sg, nth_error (a_sigs i) j = Some sg /\ genuine k (cs_msg i) sg.
Proof.
  unfold check_sign. destruct (Nat.eqb_spec (cs_signers i) 0) as [|Hs]; [discriminate|].
  destruct (validate_all (cs_kis i) (a_sigs i) (cs_msg i)) eqn:Ev; cbn [negb]; [|discriminate].
  destruct (a_acl i) as [|addr black grey n kt]; [discriminate|].
  destruct black; [discriminate|]. destruct grey; [discriminate|]. intros [= <-].
  exists n, kt. split; [reflexivity|]. split; [lia|]. apply validate_all_genuine, Ev.
Qed.
