From Fnd Require Import Base.Prelude.
Require Import Paths.

Lemma split_nonempty s : split s <> [].
Proof. destruct s as [|c r]; cbn; [discriminate|]. destruct (N.eqb c slash); [discriminate|]. destruct (split r); discriminate. Qed.

Lemma split_app a b : split (a ++ slash :: b) = split a ++ split b.
Proof.
  induction a as [|c a IH]; cbn [app split].
  - rewrite N.eqb_refl. reflexivity.
  - destruct (N.eqb c slash); [rewrite IH; reflexivity|].
    rewrite IH. destruct (split a) as [|h t] eqn:E; [exfalso; eapply split_nonempty; eauto|]. reflexivity.
Qed.

Definition noslash (e : list N) : Prop := Forall (fun c => c <> slash) e.

Lemma split_noslash e : noslash e -> split e = [e].
Proof.
  induction e as [|c e IH]; intros H; [reflexivity|]. inversion H as [|? ? Hc He]; subst.
  cbn. destruct (N.eqb_spec c slash); [contradiction|]. rewrite IH by assumption. reflexivity.
Qed.

Lemma split_elems_noslash s : Forall noslash (split s).
Proof.
  induction s as [|c r IH]; cbn.
  - repeat constructor.
  - destruct (N.eqb_spec c slash) as [->|Hc].
    + constructor; [constructor|assumption].
    + destruct (split r) as [|h t]; [repeat constructor; assumption|].
      inversion IH; subst. constructor; [constructor; assumption|assumption].
Qed.

Lemma plain_spec id : plain id = true <-> id <> [] /\ noslash id /\ is_dot id = false /\ is_dotdot id = false.
Proof.
  unfold plain, beq. rewrite !andb_true_iff, !negb_true_iff, bool_decide_eq_false, forallb_forall.
  split.
  - intros [[[H1 H2] H3] H4]. repeat split; try assumption.
    apply List.Forall_forall. intros c Hc. specialize (H2 c Hc). apply negb_true_iff in H2. apply N.eqb_neq. exact H2.
  - intros (H1 & H2 & H3 & H4). repeat split; try assumption.
    intros c Hc. apply negb_true_iff. apply N.eqb_neq. unfold noslash in H2. rewrite List.Forall_forall in H2. apply (H2 c). exact Hc.
Qed.

Lemma cstep_plain st e : plain e = true -> cstep st e = e :: st.
Proof.
  intros H. apply plain_spec in H. destruct H as (H1 & _ & H3 & H4).
  unfold cstep. destruct e as [|c r]; [contradiction|]. rewrite H3, H4. reflexivity.
Qed.

Lemma fold_cstep_app l1 l2 st : fold_left cstep (l1 ++ l2) st = fold_left cstep l2 (fold_left cstep l1 st).
Proof. apply fold_left_app. Qed.

Lemma from_key_plain id : plain id = true -> from_key id = pfx_from ++ id.
Proof.
  intros H. pose proof H as Hp. apply plain_spec in Hp. destruct Hp as (_ & Hn & _ & _).
  unfold from_key, join, clean_rooted. rewrite split_app, (split_noslash id Hn), fold_cstep_app.
  change (fold_left cstep (split pfx_from) []) with [[102; 114; 111; 109]; [116; 114; 97; 110; 115; 102; 101; 114]]%N.
  cbn [fold_left]. rewrite cstep_plain by exact H. cbn. rewrite app_nil_r. reflexivity.
Qed.

Lemma to_key_plain id : plain id = true -> to_key id = pfx_to ++ id.
Proof.
  intros H. pose proof H as Hp. apply plain_spec in Hp. destruct Hp as (_ & Hn & _ & _).
  unfold to_key, join, clean_rooted. rewrite split_app, (split_noslash id Hn), fold_cstep_app.
  change (fold_left cstep (split pfx_to) []) with [[116; 111]; [116; 114; 97; 110; 115; 102; 101; 114]]%N.
  cbn [fold_left]. rewrite cstep_plain by exact H. cbn. rewrite app_nil_r. reflexivity.
Qed.

Lemma strip_keeps r c : c <> slash -> strip_slashes_rev (c :: r) = c :: r.
Proof. intros H. cbn. destruct (N.eqb_spec c slash); [contradiction|reflexivity]. Qed.

Lemma noslash_rev e : noslash e -> noslash (rev e).
Proof. unfold noslash. intros H. apply List.Forall_rev. exact H. Qed.

Lemma last_app_single {A} (l : list A) x d : List.last (l ++ [x]) d = x.
Proof. apply List.last_last. Qed.

Lemma base_pfx_plain pre id : plain id = true -> base ((pre ++ [slash]) ++ id) = id.
Proof.
  intros H. apply plain_spec in H. destruct H as (H1 & Hn & _ & _).
  unfold base. destruct ((pre ++ [slash]) ++ id) eqn:Ep; [destruct pre; discriminate|]. rewrite <- Ep. clear Ep.
  rewrite rev_app_distr.
  destruct (rev id) as [|c r] eqn:Er.
  { exfalso. apply H1. rewrite <- (rev_involutive id), Er. reflexivity. }
  assert (Hc : c <> slash).
  { pose proof (noslash_rev id Hn) as Hr. rewrite Er in Hr. inversion Hr; assumption. }
  cbn [app]. rewrite strip_keeps by exact Hc.
  change (c :: r ++ rev (pre ++ [slash])) with ((c :: r) ++ rev (pre ++ [slash])).
  rewrite <- Er, <- rev_app_distr, rev_involutive.
  destruct ((pre ++ [slash]) ++ id) eqn:Ep; [destruct pre; discriminate|]. rewrite <- Ep. clear Ep.
  rewrite <- app_assoc. cbn [app]. rewrite split_app, (split_noslash id Hn). apply last_app_single.
Qed.

Lemma base_from_plain id : plain id = true -> base (pfx_from ++ id) = id.
Proof. intros H. exact (base_pfx_plain [47; 116; 114; 97; 110; 115; 102; 101; 114; 47; 102; 114; 111; 109]%N id H). Qed.

Lemma base_noslash p : base p = [slash] \/ noslash (base p).
Proof.
  unfold base. destruct p as [|a p]; [right; repeat constructor; discriminate|].
  destruct (rev (strip_slashes_rev (rev (a :: p)))) as [|b q] eqn:E; [left; reflexivity|right].
  pose proof (split_elems_noslash (b :: q)) as HF.
  assert (G : forall (l : list (list N)), Forall noslash l -> noslash (List.last l [])).
  { induction l as [|x l IH]; intros HA; [constructor|]. inversion HA; subst. destruct l; [assumption|]. apply IH. assumption. }
  apply G. exact HF.
Qed.

Theorem valid_is_plain id : is_valid_id id = plain id.
Proof.
  destruct (plain id) eqn:Hp.
  - unfold is_valid_id, beq. pose proof Hp as Hs. apply plain_spec in Hs. destruct Hs as (H1 & _).
    rewrite (from_key_plain id Hp), (to_key_plain id Hp).
    rewrite (base_from_plain id Hp).
    rewrite (bool_decide_eq_false_2 (id = []) H1). rewrite !bool_decide_eq_true_2 by reflexivity. reflexivity.
  - destruct (is_valid_id id) eqn:Hv; [|reflexivity]. exfalso.
    unfold is_valid_id, beq in Hv. rewrite !andb_true_iff, negb_true_iff, bool_decide_eq_false, !bool_decide_eq_true in Hv.
    destruct Hv as [[[H1 H2] H3] H4].
    assert (Hn : noslash id).
    { destruct (base_noslash (from_key id)) as [Hb|Hb]; rewrite H4 in Hb; [|exact Hb].
      subst id. vm_compute in H2. discriminate. }
    assert (Hd : is_dot id = false).
    { destruct (is_dot id) eqn:E; [|reflexivity]. destruct id as [|c [|? ?]]; try discriminate. cbn in E. apply N.eqb_eq in E. subst c. vm_compute in H2. discriminate. }
    assert (Hdd : is_dotdot id = false).
    { destruct (is_dotdot id) eqn:E; [|reflexivity]. destruct id as [|c [|d [|? ?]]]; try discriminate. cbn in E. apply andb_true_iff in E. destruct E as [E1 E2].
      apply N.eqb_eq in E1, E2. subst c d. vm_compute in H2. discriminate. }
    assert (plain id = true) as Hc by (apply plain_spec; repeat split; assumption). congruence.
Qed.

(* different valid ids have different keys, and no origin key is a destination key *)
Theorem valid_keys_injective a b : is_valid_id a = true -> is_valid_id b = true ->
  (from_key a = from_key b -> a = b) /\ (to_key a = to_key b -> a = b) /\ from_key a <> to_key b.
Proof.
  rewrite !valid_is_plain. intros Ha Hb.
  rewrite (from_key_plain a Ha), (from_key_plain b Hb), (to_key_plain a Ha), (to_key_plain b Hb).
  split; [apply app_inv_head|]. split; [apply app_inv_head|].
  unfold pfx_from, pfx_to. cbn [app]. intros H. inversion H.
Qed.

(* cleaning is a projection: what it returns is its own cleaned form *)
Lemma cstep_keeps_plain st e : Forall (fun x => plain x = true) st -> Forall (fun x => plain x = true) (cstep st e) \/ False.
Proof. Abort.

Lemma plain_cases e : e = [] \/ is_dot e = true \/ is_dotdot e = true \/ noslash e -> noslash e ->
  e = [] \/ is_dot e = true \/ is_dotdot e = true \/ plain e = true.
Proof.
  intros _ Hn. destruct e as [|c r]; [left; reflexivity|]. destruct (is_dot (c :: r)) eqn:E1; [right; left; reflexivity|].
  destruct (is_dotdot (c :: r)) eqn:E2; [right; right; left; reflexivity|]. right; right; right.
  apply plain_spec. repeat split; try assumption. discriminate.
Qed.

Lemma cstep_plain_inv st e : noslash e -> Forall (fun x => plain x = true) st -> Forall (fun x => plain x = true) (cstep st e).
Proof.
  intros Hn Hst. destruct (plain_cases e (or_intror (or_intror (or_intror Hn))) Hn) as [->|[H|[H|H]]].
  - exact Hst.
  - unfold cstep. destruct e; [exact Hst|]. rewrite H. exact Hst.
  - unfold cstep. destruct e; [exact Hst|]. rewrite H. destruct (is_dot (n :: e)); [exact Hst|]. destruct st; [constructor|]. inversion Hst; assumption.
  - rewrite cstep_plain by exact H. constructor; assumption.
Qed.

Lemma fold_cstep_plain l : Forall noslash l -> forall st, Forall (fun x => plain x = true) st ->
  Forall (fun x => plain x = true) (fold_left cstep l st).
Proof.
  induction l as [|e l IH]; intros Hl st Hst; [exact Hst|]. inversion Hl; subst. cbn [fold_left].
  apply IH; [assumption|]. apply cstep_plain_inv; assumption.
Qed.

Lemma split_render e r : noslash e -> Forall noslash r -> split (e ++ render r) = e :: r.
Proof.
  revert e. induction r as [|e2 r IH]; intros e He Hr.
  - cbn. rewrite app_nil_r. apply split_noslash. exact He.
  - inversion Hr; subst. cbn [render]. rewrite split_app, (split_noslash e He). rewrite IH by assumption. reflexivity.
Qed.

Lemma fold_cstep_push l : Forall (fun x => plain x = true) l -> forall st, fold_left cstep l st = rev l ++ st.
Proof.
  induction l as [|e l IH]; intros Hl st; [reflexivity|]. inversion Hl; subst. cbn [fold_left rev].
  rewrite cstep_plain by assumption. rewrite IH by assumption. rewrite <- app_assoc. reflexivity.
Qed.

Lemma plain_noslash e : plain e = true -> noslash e.
Proof. intros H. apply plain_spec in H. tauto. Qed.

Theorem clean_idempotent s : clean_rooted (clean_rooted s) = clean_rooted s.
Proof.
  unfold clean_rooted at 2 3.
  assert (Hp : Forall (fun x => plain x = true) (rev (fold_left cstep (split s) []))).
  { apply List.Forall_rev. apply fold_cstep_plain; [apply split_elems_noslash|constructor]. }
  destruct (rev (fold_left cstep (split s) [])) as [|e r]; [reflexivity|].
  inversion Hp as [|? ? He Hr]; subst.
  assert (Hrn : Forall noslash r) by (eapply List.Forall_impl; [|exact Hr]; apply plain_noslash).
  unfold clean_rooted. cbn [render split]. rewrite N.eqb_refl.
  rewrite (split_render e r (plain_noslash e He) Hrn).
  change (fold_left cstep ([] :: e :: r) []) with (fold_left cstep (e :: r) []).
  rewrite (fold_cstep_push (e :: r) Hp). rewrite app_nil_r, rev_involutive. reflexivity.
Qed.
