From Fnd Require Import Base.Prelude Model.Auth Proofs.AuthProofs.

(* the presented key strings at the positions that hold a non-blank genuine signature *)
Fixpoint genuine_keys (keyargs : list (list N)) (kis : list (option keyinfo)) (sigargs : list (list N))
         (sigs : list sigv) (msg : list N) : list (list N) :=
  match keyargs, kis, sigargs, sigs with
  | ka :: kar, k :: kr, sa :: sr, sg :: gr =>
    (if match sa with [] => false | _ => genuineb k msg sg end then [ka] else []) ++ genuine_keys kar kr sr gr msg
  | _, _, _, _ => []
  end.

Lemma genuine_keys_length keyargs : forall kis sigargs sigs msg, length keyargs = length kis ->
  length (genuine_keys keyargs kis sigargs sigs msg) = count_genuine kis sigargs sigs msg.
Proof.
  induction keyargs as [|ka kar IH]; intros kis sigargs sigs msg Hl; destruct kis as [|k kr]; cbn in Hl; try discriminate; [reflexivity|].
  cbn [genuine_keys count_genuine]. destruct sigargs as [|sa sr]; [reflexivity|]. destruct sigs as [|sg gr]; [reflexivity|].
  rewrite app_length, IH by lia. destruct (match sa with [] => false | _ => genuineb k msg sg end); reflexivity.
Qed.

Lemma genuine_keys_in keyargs : forall kis sigargs sigs msg x,
  In x (genuine_keys keyargs kis sigargs sigs msg) -> In x keyargs.
Proof.
  induction keyargs as [|ka kar IH]; intros kis sigargs sigs msg x; cbn [genuine_keys]; [tauto|].
  destruct kis as [|k kr]; [cbn; tauto|]. destruct sigargs as [|sa sr]; [cbn; tauto|]. destruct sigs as [|sg gr]; [cbn; tauto|].
  intros H. apply in_app_or in H. destruct H as [H|H].
  - destruct (match sa with [] => false | _ => genuineb k msg sg end); [|destruct H]. destruct H as [->|[]]. left. reflexivity.
  - right. eapply IH, H.
Qed.

Lemma genuine_keys_nodup keyargs : forall kis sigargs sigs msg, List.NoDup keyargs ->
  List.NoDup (genuine_keys keyargs kis sigargs sigs msg).
Proof.
  induction keyargs as [|ka kar IH]; intros kis sigargs sigs msg Hn; cbn [genuine_keys]; [constructor|].
  destruct kis as [|k kr]; [constructor|]. destruct sigargs as [|sa sr]; [constructor|]. destruct sigs as [|sg gr]; [constructor|].
  inversion Hn as [|? ? Hnotin Hn']; subst.
  destruct (match sa with [] => false | _ => genuineb k msg sg end); cbn [app].
  - constructor; [|apply IH, Hn']. intros Hc. apply Hnotin. eapply genuine_keys_in, Hc.
  - apply IH, Hn'.
Qed.

(* every key in the list carries a genuine signature at its own position *)
Lemma genuine_keys_signed keyargs : forall kis sigargs sigs msg x,
  In x (genuine_keys keyargs kis sigargs sigs msg) ->
  exists j k sg, nth_error keyargs j = Some x /\ nth_error kis j = Some k /\ nth_error sigs j = Some sg /\ genuine k msg sg.
Proof.
  induction keyargs as [|ka kar IH]; intros kis sigargs sigs msg x; cbn [genuine_keys]; [intros []|].
  destruct kis as [|k kr]; [intros []|]. destruct sigargs as [|sa sr]; [intros []|]. destruct sigs as [|sg gr]; [intros []|].
  intros H. apply in_app_or in H. destruct H as [H|H].
  - destruct sa as [|c sa']; [destruct H|]. destruct (genuineb k msg sg) eqn:Eg; [|destruct H]. destruct H as [->|[]].
    exists 0%nat, k, sg. repeat split; try reflexivity. apply genuineb_spec, Eg.
  - destruct (IH _ _ _ _ _ H) as (j & k' & sg' & H1 & H2 & H3 & H4). exists (S j), k', sg'. repeat split; assumption.
Qed.

(* DISTINCT SIGNERS: when the presented key list has no repetition (an access-control service registers key lists
   without repetition and answers for exactly the presented list), an accepted request carries genuine signatures
   of at least the required number of DISTINCT presented keys *)
Theorem auth_distinct_signers i o : auth i = Ok o -> List.NoDup (key_args i) ->
  exists n ktypes ks, a_acl i = AclOk (r_addr o) false false n ktypes /\
    List.NoDup ks /\ (required n (n_signers i) <= length ks)%nat /\ (1 <= length ks)%nat /\
    forall x, In x ks -> exists j k sg, nth_error (key_args i) j = Some x /\ nth_error (the_kis i) j = Some k /\
                                        nth_error (a_sigs i) j = Some sg /\ genuine k (the_msg i) sg.
Proof.
  intros Ha Hn. destruct (auth_sound i o Ha) as (n & kt & H1 & _ & _ & _ & H5 & H6).
  exists n, kt, (genuine_keys (key_args i) (the_kis i) (sig_args i) (a_sigs i) (the_msg i)).
  assert (Hl : length (key_args i) = length (the_kis i)) by (unfold the_kis; rewrite map_length; reflexivity).
  split; [exact H1|]. split; [apply genuine_keys_nodup, Hn|].
  rewrite (genuine_keys_length _ _ _ _ _ Hl). split; [exact H5|]. split; [exact H6|].
  intros x Hx. eapply genuine_keys_signed, Hx.
Qed.
