From Fnd Require Import Base.Prelude Model.Auth Proofs.AuthProofs.
(* the check as it was before the repair F23: only the name inside the payload is compared *)
Definition without_routed (i : authin) : authin :=
  AuthIn (a_argc i) (a_fn i) (a_args i) (a_cc i) (a_ch i) (a_acl i) (a_keys i) (a_sigs i) None.
(* a request signed for chaincode "c", delivered by a peer to chaincode "v" of the same channel in a proposal whose payload
   names "c": the old check accepts it, the present one refuses it *)
Theorem payload_name_only_refuted :
  exists i o r, a_routed i = Some r /\ nth 1 (a_args i) [] <> r /\ auth (without_routed i) = Ok o /\ forall o', auth i <> Ok o'.
Proof.
  set (k1 := [107; 49]%N). set (fn := [102]%N). set (cc := [99]%N). set (vv := [118]%N).
  set (base := [[]; cc; cc; [49; 48]%N; [48; 97]%N; [49; 55]%N; k1]).
  set (msg := fn ++ concat base).
  set (i := AuthIn 3 fn (base ++ [[115]%N]) cc cc (AclOk 9 false false 1 [0%N]) [(k1, KI 1 0 false)] [SigBy 1 0 msg] (Some vv)).
  exists i. eexists. exists vv. split; [reflexivity|]. split; [vm_compute; discriminate|]. split; [vm_compute; reflexivity|].
  intros o' H. apply (retarget_rejected i) with (o := o'); [|exact H]. right. right. exists vv. split; [reflexivity|vm_compute; discriminate].
Qed.
Print Assumptions payload_name_only_refuted.
