(* scratch: a stateful reading of the query wrapper *)
From Fnd Require Import Base.Prelude Model.QueryStub Proofs.QueryProofs.

(* stub operations with their data; the peer's stub reads committed state only (a simulation never reads its own
   writes), buffers writes / deletes, keeps the last event and passes everything else on *)
Inductive qop :=
| QPut (k : N) (v : list N) | QDel (k : N) | QEvent (n : N) (v : list N)
| QOtherWrite (o : N)                       (* validation parameters, private-data writes: operations 3..7 *)
| QGet (k : N) | QOtherRead (o : N).

Definition op_no (o : qop) : N :=
  match o with QPut _ _ => 1 | QDel _ => 2 | QEvent _ _ => 8 | QOtherWrite o => o | QGet _ => 20 | QOtherRead o => o end%N.

Record peer := Peer { committed : gmap N (list N); writes : list (N * option (list N)); event : option (N * list N); others : list N }.

Definition peer_step (p : peer) (o : qop) : peer * option (list N) :=
  match o with
  | QPut k v => (Peer (committed p) (writes p ++ [(k, Some v)]) (event p) (others p), None)
  | QDel k => (Peer (committed p) (writes p ++ [(k, None)]) (event p) (others p), None)
  | QEvent n v => (Peer (committed p) (writes p) (Some (n, v)) (others p), None)
  | QOtherWrite x => (Peer (committed p) (writes p) (event p) (others p ++ [x]), None)
  | QGet k => (p, Some (default [] (committed p !! k)))
  | QOtherRead _ => (p, None)
  end.

Definition is_write (o : qop) : bool := match o with QGet _ | QOtherRead _ => false | _ => true end.

(* core/query_stub.go: the eight mutating methods answer nil without touching the stub underneath *)
Definition wrapped_step (p : peer) (o : qop) : peer * option (list N) :=
  if is_write o then (p, None) else peer_step p o.

Fixpoint run_with (step : peer -> qop -> peer * option (list N)) (p : peer) (body : list qop) : peer * list (option (list N)) :=
  match body with
  | [] => (p, [])
  | o :: r => let '(p', x) := step p o in let '(p'', xs) := run_with step p' r in (p'', x :: xs)
  end.

(* the wrapped body leaves the peer's view of the transaction exactly as it found it: no write, no delete, no event, no
   validation parameter, no private data - whatever the body attempts, in any order and number *)
Theorem wrapped_leaves_peer body : forall p, fst (run_with wrapped_step p body) = p.
Proof.
  induction body as [|o r IH]; intros p; cbn [run_with]; [reflexivity|].
  unfold wrapped_step at 1. destruct (is_write o) eqn:E.
  - specialize (IH p). destruct (run_with wrapped_step p r) as [p2 xs]. exact IH.
  - destruct o; try discriminate; cbn [peer_step]; specialize (IH p); destruct (run_with wrapped_step p r) as [p2 xs]; exact IH.
Qed.

(* ... and it reads exactly what the same body would read unwrapped: a query sees the committed ledger, never its
   own attempted writes - with or without the wrapper *)
Lemma wrapped_reads_same_gen body : forall p q, committed p = committed q ->
  snd (run_with wrapped_step p body) = snd (run_with peer_step q body).
Proof.
  induction body as [|o r IH]; intros p q Hc; cbn [run_with]; [reflexivity|].
  unfold wrapped_step at 1. destruct o as [k v|k|n v|x|k|x]; cbn [is_write peer_step].
  - specialize (IH p (Peer (committed q) (writes q ++ [(k, Some v)]) (event q) (others q)) Hc).
    destruct (run_with wrapped_step p r) as [p2 xs]. destruct (run_with peer_step _ r) as [q2 ys]. cbn [snd] in *. congruence.
  - specialize (IH p (Peer (committed q) (writes q ++ [(k, None)]) (event q) (others q)) Hc).
    destruct (run_with wrapped_step p r) as [p2 xs]. destruct (run_with peer_step _ r) as [q2 ys]. cbn [snd] in *. congruence.
  - specialize (IH p (Peer (committed q) (writes q) (Some (n, v)) (others q)) Hc).
    destruct (run_with wrapped_step p r) as [p2 xs]. destruct (run_with peer_step _ r) as [q2 ys]. cbn [snd] in *. congruence.
  - specialize (IH p (Peer (committed q) (writes q) (event q) (others q ++ [x])) Hc).
    destruct (run_with wrapped_step p r) as [p2 xs]. destruct (run_with peer_step _ r) as [q2 ys]. cbn [snd] in *. congruence.
  - specialize (IH p q Hc). rewrite Hc.
    destruct (run_with wrapped_step p r) as [p2 xs]. destruct (run_with peer_step q r) as [q2 ys]. cbn [snd] in *. congruence.
  - specialize (IH p q Hc).
    destruct (run_with wrapped_step p r) as [p2 xs]. destruct (run_with peer_step q r) as [q2 ys]. cbn [snd] in *. congruence.
Qed.
Theorem wrapped_reads_same body p : snd (run_with wrapped_step p body) = snd (run_with peer_step p body).
Proof. apply wrapped_reads_same_gen. reflexivity. Qed.

(* the numbered-operation model of Model/QueryStub.v is the projection of this one *)
Lemma is_write_mutating o : (match o with QOtherWrite x => (3 <=? x)%N && (x <=? 7)%N | QOtherRead x => (20 <=? x)%N | _ => true end) = true ->
  is_write o = mutating (op_no o).
Proof. destruct o as [k v|k|n v|x|k|x]; cbn; intros H; try reflexivity.
  - unfold mutating. apply andb_true_iff in H as [H1 H2]. apply N.leb_le in H1, H2.
    destruct (N.leb_spec 1 x), (N.leb_spec x 8); try reflexivity; lia.
  - unfold mutating. apply N.leb_le in H. destruct (N.leb_spec 1 x), (N.leb_spec x 8); try reflexivity; lia.
Qed.
