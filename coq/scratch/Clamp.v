From Fnd Require Import Base.Prelude Model.Paging.
From stdpp Require Import lexico.

Section clamp.
  Context {V : Type}.
  Notation kv := (list N * V)%type.

  (* a page size beyond the number of ledger entries behaves like the number of entries plus one *)
  Definition clamp (l : list kv) (size : Z) : Z := Z.min size (Z.of_nat (length l) + 1).

  Lemma filter_len (f : kv -> bool) (l : list kv) : (length (List.filter f l) <= length l)%nat.
  Proof. induction l as [|x r IHl]; cbn [List.filter length]; [lia|]. destruct (f x); cbn [length]; lia. Qed.

  Lemma page_big (l : list kv) lo hi n m bm : (length l <= n)%nat -> (length l <= m)%nat ->
    page l lo hi n bm = page l lo hi m bm.
  Proof.
    intros Hn Hm. unfold page.
    set (items := List.filter _ l).
    assert (Hl : (length items <= length l)%nat) by apply filter_len.
    rewrite !firstn_all2 by lia. rewrite !skipn_all2 by lia. reflexivity.
  Qed.

  Lemma query_clamp (l : list kv) size bm : query l size bm = query l (clamp l size) bm.
  Proof.
    unfold clamp. destruct (Z.le_gt_cases size (Z.of_nat (length l) + 1)) as [Hle|Hgt].
    - rewrite Z.min_l by lia. reflexivity.
    - rewrite Z.min_r by lia. unfold query.
      destruct (Z.leb_spec size 0); [lia|]. destruct (Z.leb_spec (Z.of_nat (length l) + 1) 0); [lia|].
      assert (Hp : forall b, page l pfx (pfx ++ maxrune) (Z.to_nat size) b =
                             page l pfx (pfx ++ maxrune) (Z.to_nat (Z.of_nat (length l) + 1)) b).
      { intros b. apply page_big; lia. }
      destruct bm as [|c r]; [rewrite Hp; reflexivity|]. destruct (has_prefix pfx (c :: r)); [rewrite Hp|]; reflexivity.
  Qed.

  Lemma all_pages_clamp fuel : forall (l : list kv) size bm, all_pages fuel l size bm = all_pages fuel l (clamp l size) bm.
  Proof.
    induction fuel as [|f IH]; intros l size bm; cbn [all_pages]; [reflexivity|].
    rewrite <- query_clamp. destruct (query l size bm) as [e|[items next]]; [reflexivity|].
    destruct next as [|c r]; [reflexivity|]. rewrite IH. reflexivity.
  Qed.
End clamp.
