From Fnd Require Import Base.Prelude Model.Cache Model.Nonce Model.Batch Model.Auth Model.Gate Model.Pipeline
  Proofs.CacheProofs Proofs.BatchProofs Proofs.PendingProofs Proofs.AuthProofs Proofs.PipelineProofs.

(* executions of id reported by the batches of a history of invocations *)
Fixpoint executions (id : N) (h : list preq) (out : list presp) : nat :=
  match h, out with
  | PBatch _ ids :: r, RItems rs :: t =>
    (length (List.filter (fun x => executed x id) (combine ids rs)) + executions id r t)%nat
  | _ :: r, _ :: t => executions id r t
  | _, _ => 0%nat
  end.
(* accepted submissions of id *)
Fixpoint recorded (id : N) (h : list preq) (out : list presp) : nat :=
  match h, out with
  | PSubmit _ i _ _ :: r, RRecorded :: t => ((if N.eqb i id then 1 else 0) + recorded id r t)%nat
  | _ :: r, _ :: t => recorded id r t
  | _, _ => 0%nat
  end.

Lemma q_once e h : data_only (pe_bodies e) -> forall m id,
  (executions id h (snd (q_run e m h)) + present (fst (q_run e m h)) id
   <= recorded id h (snd (q_run e m h)) + present m id)%nat.
Proof.
  intros Hd. induction h as [|r h IH]; intros m id; cbn [q_run]; [cbn; lia|].
  destruct r as [cr i ai bi|cr ids|cr ts]; cbn [q_step].
  - destruct (invoke_gate (pe_cfg e) cr (FMethod (pe_method e))) as [| | | |hd];
      try (specialize (IH m id); destruct (q_run e m h) as [m2 xs]; cbn [fst snd executions recorded] in *; exact IH).
    destruct hd; try (specialize (IH m id); destruct (q_run e m h) as [m2 xs]; cbn [fst snd executions recorded] in *; exact IH).
    destruct (auth ai) as [o|x]; [|specialize (IH m id); destruct (q_run e m h) as [m2 xs]; cbn [fst snd executions recorded] in *; exact IH].
    specialize (IH (submit m i (r_addr o) (dec_val (r_nonce o)) bi) id).
    destruct (q_run e _ h) as [m2 xs]. cbn [fst snd executions recorded] in *.
    assert (present (submit m i (r_addr o) (dec_val (r_nonce o)) bi) id <= (if N.eqb i id then 1 else 0) + present m id)%nat.
    { unfold present. rewrite submit_pending. destruct (N.eqb_spec i id) as [->|Hne].
      - rewrite decide_True by reflexivity. destruct (led_get m (pk id)); lia.
      - rewrite decide_False by congruence. lia. }
    lia.
  - destruct (invoke_gate (pe_cfg e) cr FBatchExecute) as [| | | |hd];
      try (specialize (IH m id); destruct (q_run e m h) as [m2 xs]; cbn [fst snd executions recorded] in *; exact IH).
    destruct hd; try (specialize (IH m id); destruct (q_run e m h) as [m2 xs]; cbn [fst snd executions recorded] in *; exact IH).
    pose proof (batch_exec_count (pe_bodies e) ids Hd m id) as Hb.
    destruct (spec_batch (pe_bodies e) m ids) as [m1 rs]. specialize (IH m1 id).
    destruct (q_run e m1 h) as [m2 xs]. cbn [fst snd executions recorded] in *. lia.
  - destruct (invoke_gate (pe_cfg e) cr FExecuteTasks) as [| | | |hd];
      try (specialize (IH m id); destruct (q_run e m h) as [m2 xs]; cbn [fst snd executions recorded] in *; exact IH).
    destruct hd; try (specialize (IH m id); destruct (q_run e m h) as [m2 xs]; cbn [fst snd executions recorded] in *; exact IH).
    pose proof (q_tasks_frame e ts Hd m id) as Hf.
    destruct (q_tasks e m ts) as [m1 rs]. cbn [fst] in Hf. specialize (IH m1 id).
    destruct (q_run e m1 h) as [m2 xs]. cbn [fst snd executions recorded] in *.
    assert (present m1 id = present m id) by (unfold present; rewrite Hf; reflexivity). lia.
Qed.

(* AT MOST ONCE, for whole invocations (layered caches): over any history of submissions, batches and task lists by any
   creators, with any multisets of ids, a request is executed at most as often as it was recorded - once, transaction ids
   being unique - also with duplicates inside a batch, re-listing in later batches and task lists in between *)
Theorem p_executed_at_most_once e h l0 id : data_only (pe_bodies e) ->
  (executions id h (snd (p_run e l0 h)) <= recorded id h (snd (p_run e l0 h)) + present l0 id)%nat.
Proof.
  intros Hd. destruct (pipeline_refines e h l0 l0 (leq_refl l0)) as [-> _].
  pose proof (q_once e h Hd l0 id). lia.
Qed.
